// Unit res_der (C03): "lower bound not above upper bound" and the exact bounds of ranges DECODED from the RFC 3779
// extensions, for every pair of decoded values (replaces the bounded Kani stand-ins bl_as_der_lo_le_hi /
// bl_ip_der_lo_le_hi / bl_ip_der_family_lo_le_hi of unit block_leaves as the deciding step; those stay as
// cross-checks through the real bcder primitives).
//   AsRange::parse_content                      (src/repository/resources/asres.rs)
//   AddressRange::parse_content, parse_content_with_family, check_len (not(compat)),
//   Prefix::{min, max, addr_len}, Addr::to_max, AddressFamily::max_addr_len   (src/repository/resources/ipres.rs)
// The bodies are verbatim.  bcder is abstract: a Constructed is a stream whose next value (`first`) and remainder
// (`tail`) are uninterpreted; Asn::take_from / Prefix::take_from hand out `first` and advance - whatever the two
// decoded values are, an accepted range has exactly min(first prefix) .. max(second prefix) as its bounds (resp.
// the two AS numbers), lower <= upper, and (with family) both prefix lengths within the family.
use vstd::prelude::*;
use vstd::std_specs::cmp::*;
#[allow(unused_imports)]
use std::cmp::Ordering;

verus! {

// ---- environment: bcder stand-ins -----------------------------------------------------------------
#[verifier::external_body]
pub struct ContentError { _o: u8 }
impl From<&'static str> for ContentError {
    #[verifier::external_body]
    fn from(msg: &'static str) -> (r: Self) { unimplemented!() }
}
#[verifier::external_body]
pub struct DecodeError { _o: u8 }
#[verifier::external_body]
pub struct Content { _o: u8 }
#[verifier::external_body]
pub struct Constructed { _o: u8 }
/// the constructed value a Content holds (if it is constructed)
pub uninterp spec fn inner(c: Content) -> Constructed;
pub uninterp spec fn is_constructed(c: Content) -> bool;
impl Constructed {
    /// the next AS number / prefix the stream would decode to, and the stream behind it
    pub uninterp spec fn first_asn(self) -> Asn;
    pub uninterp spec fn first_prefix(self) -> Prefix;
    pub uninterp spec fn tail(self) -> Constructed;
    /// whether the stream's next value decodes as an AS number / as a prefix
    pub uninterp spec fn has_asn(self) -> bool;
    pub uninterp spec fn has_prefix(self) -> bool;
    #[verifier::external_body]
    pub fn content_err<T>(&self, err: T) -> (r: DecodeError) { unimplemented!() }
}
impl Content {
    #[verifier::external_body]
    pub fn as_constructed(&mut self) -> (r: Result<&mut Constructed, DecodeError>)
        ensures r is Ok <==> is_constructed(*old(self)), r matches Ok(c) ==> *c == inner(*old(self))
    { unimplemented!() }
}

//@item src/resources/asn.rs :: pub struct Asn pubfields keepderive=Clone,Copy,PartialEq,Eq,PartialOrd,Ord
//@item src/repository/resources/ipres.rs :: pub struct Addr pubfields keepderive=Clone,Copy,PartialEq,Eq,PartialOrd,Ord
//@item src/repository/resources/ipres.rs :: pub struct Prefix pubfields keepderive=Clone,Copy
//@item src/repository/resources/ipres.rs :: pub struct AddressRange pubfields keepderive=Clone,Copy
//@item src/repository/resources/ipres.rs :: pub enum AddressFamily keepderive=Clone,Copy
//@item src/repository/resources/asres.rs :: pub struct AsRange pubfields keepderive=Clone,Copy

pub mod ax {
    use super::*;
    /// derive(PartialOrd, Ord, PartialEq) on `struct Asn(u32)` / `struct Addr(u128)` is the order of the wrapped
    /// integer.  Assumed here; proved on the compiled types by Kani (asn_set: asn_ord_is_u32; block_leaves: ord_is_int).
    #[verifier::external_body]
    pub broadcast proof fn axiom_asn_ord()
        ensures
            #[trigger] <Asn as PartialOrdSpec>::obeys_partial_cmp_spec(),
            forall|a: Asn, b: Asn| #[trigger] a.partial_cmp_spec(&b) == Some(if a.0 < b.0 { Ordering::Less } else if a.0 == b.0 { Ordering::Equal } else { Ordering::Greater }),
    {}
    #[verifier::external_body]
    pub broadcast proof fn axiom_addr_ord()
        ensures
            #[trigger] <Addr as PartialOrdSpec>::obeys_partial_cmp_spec(),
            forall|a: Addr, b: Addr| #[trigger] a.partial_cmp_spec(&b) == Some(if a.0 < b.0 { Ordering::Less } else if a.0 == b.0 { Ordering::Equal } else { Ordering::Greater }),
    {}
}
broadcast use {ax::axiom_asn_ord, ax::axiom_addr_ord};

impl Asn {
    #[verifier::external_body]
    pub fn take_from(cons: &mut Constructed) -> (r: Result<Asn, DecodeError>)
        ensures r is Ok <==> old(cons).has_asn(), r matches Ok(v) ==> v == old(cons).first_asn() && *final(cons) == old(cons).tail()
    { unimplemented!() }
}

/// largest address of a prefix: the host bits set (same bit expression as the code; Kani unit block_leaves proves
/// the compiled function against the interval reading)
pub open spec fn to_max_spec(a: u128, len: u8) -> u128 {
    if len >= 128 { a } else { a | (!0u128 >> (len as usize)) }
}
pub open spec fn family_max(f: AddressFamily) -> u8 {
    match f { AddressFamily::Ipv4 => 32, AddressFamily::Ipv6 => 128 }
}

impl Addr {
    //@fn src/repository/resources/ipres.rs :: impl Addr :: to_max
    //@spec
        ensures r.0 == to_max_spec(self.0, prefix_len),
    //@/spec
    //@end
}
impl AddressFamily {
    //@fn src/repository/resources/ipres.rs :: impl AddressFamily :: max_addr_len
    //@spec
        ensures r == family_max(self),
    //@/spec
    //@end
}
impl Prefix {
    #[verifier::external_body]
    pub fn take_from(cons: &mut Constructed) -> (r: Result<Prefix, DecodeError>)
        ensures r is Ok <==> old(cons).has_prefix(), r matches Ok(v) ==> v == old(cons).first_prefix() && *final(cons) == old(cons).tail()
    { unimplemented!() }

    //@fn src/repository/resources/ipres.rs :: impl Prefix :: addr
    //@spec
        ensures r == self.addr,
    //@/spec
    //@end
    //@fn src/repository/resources/ipres.rs :: impl Prefix :: addr_len
    //@spec
        ensures r == self.len,
    //@/spec
    //@end
    //@fn src/repository/resources/ipres.rs :: impl Prefix :: min
    //@spec
        ensures r == self.addr,
    //@/spec
    //@end
    //@fn src/repository/resources/ipres.rs :: impl Prefix :: max
    //@spec
        ensures r.0 == to_max_spec(self.addr.0, self.len),
    //@/spec
    //@end
}

impl AsRange {
    //@fn src/repository/resources/asres.rs :: impl AsRange :: parse_content
    //@sigsub R12 "<S: decode::Source>" ""
    //@sigsub R12 "decode::Content<S>" "Content"
    //@sigsub R12 "DecodeError<S::Error>" "DecodeError"
    //@spec
        ensures
            r matches Ok(rg) ==> {
                let c = inner(*old(content));
                &&& rg.min == c.first_asn() && rg.max == c.tail().first_asn()
                &&& rg.min.0 <= rg.max.0
            },
            // accepted exactly when two AS numbers are there and they are in order: nothing valid is refused
            r is Ok <==> {
                let c = inner(*old(content));
                is_constructed(*old(content)) && c.has_asn() && c.tail().has_asn() && c.first_asn().0 <= c.tail().first_asn().0
            },
    //@/spec
    //@end
}

impl AddressRange {
    //@fn src/repository/resources/ipres.rs :: impl AddressRange :: parse_content
    //@sigsub R12 "<S: decode::Source>" ""
    //@sigsub R12 "decode::Content<S>" "Content"
    //@sigsub R12 "DecodeError<S::Error>" "DecodeError"
    //@spec
        ensures
            r matches Ok(rg) ==> {
                let c = inner(*old(content));
                &&& rg.min == c.first_prefix().addr
                &&& rg.max.0 == to_max_spec(c.tail().first_prefix().addr.0, c.tail().first_prefix().len)
                &&& rg.min.0 <= rg.max.0
            },
            r is Ok <==> {
                let c = inner(*old(content));
                is_constructed(*old(content)) && c.has_prefix() && c.tail().has_prefix()
                && c.first_prefix().addr.0 <= to_max_spec(c.tail().first_prefix().addr.0, c.tail().first_prefix().len)
            },
    //@/spec
    //@end

    //@fn src/repository/resources/ipres.rs :: impl AddressRange :: parse_content_with_family
    //@sigsub R12 "<S: decode::Source>" ""
    //@sigsub R12 "decode::Content<S>" "Content"
    //@sigsub R12 "DecodeError<S::Error>" "DecodeError"
    //@spec
        ensures
            r matches Ok(rg) ==> {
                let c = inner(*old(content));
                &&& rg.min == c.first_prefix().addr
                &&& rg.max.0 == to_max_spec(c.tail().first_prefix().addr.0, c.tail().first_prefix().len)
                &&& rg.min.0 <= rg.max.0
            },
            r is Ok <==> {
                let c = inner(*old(content));
                is_constructed(*old(content)) && c.has_prefix() && c.first_prefix().len <= family_max(family)
                && c.tail().has_prefix() && c.tail().first_prefix().len <= family_max(family)
                && c.first_prefix().addr.0 <= to_max_spec(c.tail().first_prefix().addr.0, c.tail().first_prefix().len)
            },
    //@/spec
    //@end

    //@fn src/repository/resources/ipres.rs :: impl AddressRange :: check_len
    //@spec
        ensures r is Ok <==> addr.len <= family_max(family), r matches Ok(p) ==> p == addr,
    //@/spec
    //@end
}

proof fn reach_ranges(c: Content)
    requires is_constructed(c), inner(c).has_asn(), inner(c).tail().has_asn(), inner(c).first_asn().0 <= inner(c).tail().first_asn().0
{}

} // verus!
fn main() {}
