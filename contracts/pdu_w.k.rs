// Unit pdu_w (C07): WITNESS SEARCH ONLY (kind W) - proves nothing, never counted.
// "RTR PDUs survive the wire unchanged; broken streams end in errors, not hangs."
// The COMPILED write()/read()/try_read()/read_payload()/Payload::read()/Error::skip_payload() run natively
// against an in-memory stream (`Mock`: delivers the bytes in small, growing pieces, optionally Pending once per
// read, returns Ok(0) forever at the end = the closed stream, counts read calls and panics beyond a budget)
// driven by a hand-written block_on with a no-op waker and a poll budget.  The clauses of the property are
// written down independently: reference items are kept component by component (address masked by hand,
// lengths, ASNs, octets), the header is decoded by hand from the written bytes, and the well-formedness of a
// (type, version, length) header is a table taken from RFC 6810 / 8210 / the ASPA PDU layout.
// Inputs: raw integers (biased to boundaries: prefix lengths 0/32/128, maximal ASNs, ..) carry the VALUES; the
// CHOICES between cases come from `Sel`, a deterministic hash of all raw inputs (so that the heavy boundary
// bias of the raw values does not starve cases).  A hit is a concrete input, replayed and reported.
//@features ca,rtr,slurm

//@append src/rtr/pdu.rs
#[cfg(any(kani, verif_replay))]
#[allow(dead_code, unused)]
mod verif_pdu_w {
    use super::*;
    use crate::verif_support::{assume, reach};
    // (named explicitly: the unit must not depend on which imports the file under test happens to keep)
    use std::{io, mem};
    use std::future::Future;
    use std::net::{IpAddr, Ipv4Addr, Ipv6Addr};
    use std::pin::Pin;
    use std::sync::Arc;
    use std::task::{Context, Poll, Wake, Waker};
    use bytes::Bytes;
    use tokio::io::{AsyncRead, AsyncWrite, ReadBuf};
    use crate::resources::addr::{MaxLenPrefix, Prefix};
    use crate::resources::asn::Asn;
    use crate::rtr::payload;
    use crate::rtr::state::{Serial, State};

    const HDR: usize = 8;
    /// no reader of this module legitimately needs more read calls (pieces grow with the position)
    const READ_BUDGET: usize = 4000;
    const POLL_BUDGET: usize = 20000;

    // ---- selector stream -------------------------------------------------------------------------------
    struct Sel(u64);
    impl Sel {
        fn mix(mut z: u64) -> u64 {
            z = z.wrapping_add(0x9E3779B97F4A7C15);
            z = (z ^ (z >> 30)).wrapping_mul(0xBF58476D1CE4E5B9);
            z = (z ^ (z >> 27)).wrapping_mul(0x94D049BB133111EB);
            z ^ (z >> 31)
        }
        fn new(vals: &[u128]) -> Self {
            let mut s = 0x243F6A8885A308D3u64;
            for v in vals { s = Self::mix(s ^ (*v as u64) ^ ((*v >> 64) as u64).rotate_left(17)) }
            Sel(s)
        }
        fn pick(&mut self, n: u64) -> u64 { self.0 = Self::mix(self.0); self.0 % n }
    }

    // ---- the stream mocks and the executor -------------------------------------------------------------
    struct Nop;
    impl Wake for Nop { fn wake(self: Arc<Self>) {} }
    fn block_on<F: Future>(f: F) -> F::Output {
        let waker = Waker::from(Arc::new(Nop));
        let mut cx = Context::from_waker(&waker);
        let mut f = std::pin::pin!(f);
        for _ in 0..POLL_BUDGET {
            if let Poll::Ready(v) = f.as_mut().poll(&mut cx) { return v }
        }
        panic!("poll budget exceeded: the operation waits forever on a stream that never blocks for long");
    }
    const CHUNKS: [usize; 9] = [1, 2, 3, 5, 8, 13, 64, 1024, usize::MAX];
    /// in-memory reader: at most max(chunk, pos/64+1) bytes per read, Ok(0) forever at the end, hard budget
    struct Mock { data: Vec<u8>, pos: usize, chunk: usize, stutter: bool, armed: bool, calls: usize }
    impl Mock {
        fn new(data: &[u8], chunk: u64, stutter: u64) -> Self {
            Mock { data: data.to_vec(), pos: 0, chunk: CHUNKS[chunk as usize % CHUNKS.len()], stutter: stutter == 0, armed: false, calls: 0 }
        }
    }
    impl AsyncRead for Mock {
        fn poll_read(mut self: Pin<&mut Self>, cx: &mut Context<'_>, buf: &mut ReadBuf<'_>) -> Poll<io::Result<()>> {
            let me = &mut *self;
            if me.stutter && !me.armed { me.armed = true; cx.waker().wake_by_ref(); return Poll::Pending }
            me.armed = false;
            me.calls += 1;
            if me.calls > READ_BUDGET { panic!("read budget exceeded: the reader keeps reading (spins on a closed stream / never terminates)") }
            let n = me.chunk.max(me.pos / 64 + 1).min(me.data.len() - me.pos).min(buf.remaining());
            buf.put_slice(&me.data[me.pos..me.pos + n]);
            me.pos += n;
            Poll::Ready(Ok(()))
        }
    }
    /// in-memory writer accepting only a piece of every write (write_all must loop)
    struct MockW { out: Vec<u8>, chunk: usize, calls: usize }
    impl AsyncWrite for MockW {
        fn poll_write(mut self: Pin<&mut Self>, _: &mut Context<'_>, buf: &[u8]) -> Poll<io::Result<usize>> {
            let me = &mut *self;
            me.calls += 1;
            if me.calls > READ_BUDGET { panic!("write budget exceeded: the writer never finishes") }
            let n = me.chunk.max(me.out.len() / 64 + 1).min(buf.len());
            me.out.extend_from_slice(&buf[..n]);
            Poll::Ready(Ok(n))
        }
        fn poll_flush(self: Pin<&mut Self>, _: &mut Context<'_>) -> Poll<io::Result<()>> { Poll::Ready(Ok(())) }
        fn poll_shutdown(self: Pin<&mut Self>, _: &mut Context<'_>) -> Poll<io::Result<()>> { Poll::Ready(Ok(())) }
    }
    /// `rd!(bytes, g, |s| <future reading from s>)` -> (output, bytes consumed from the stream)
    macro_rules! rd { ($data:expr, $g:expr, |$s:ident| $e:expr) => {{
        let mut m = Mock::new($data, $g.pick(9), $g.pick(3));
        let r = { let $s = &mut m; block_on($e) };
        (r, m.pos)
    }} }
    /// `wr!(pdu, g)` -> the bytes the library's write() produced
    macro_rules! wr { ($p:expr, $g:expr) => {{
        let mut w = MockW { out: Vec::new(), chunk: CHUNKS[$g.pick(9) as usize], calls: 0 };
        block_on($p.write(&mut w)).expect("writing to an in-memory buffer succeeds");
        w.out
    }} }
    fn be32(b: &[u8]) -> u32 { u32::from_be_bytes([b[0], b[1], b[2], b[3]]) }
    fn be16(b: &[u8]) -> u16 { u16::from_be_bytes([b[0], b[1]]) }
    fn pattern(n: usize, seed: &[u8]) -> Vec<u8> {
        (0..n).map(|i| seed[i % seed.len()] ^ (i as u8) ^ ((i >> 8) as u8).wrapping_mul(31)).collect()
    }
    /// the PDU followed by unrelated octets: a reader consuming more than the PDU is seen
    fn with_trailer(b: &[u8], n: u64) -> Vec<u8> {
        let mut v = b.to_vec();
        v.extend((0..n).map(|i| 0xA5u8.wrapping_add((i as u8).wrapping_mul(7))));
        v
    }
    /// header length field == number of octets written (decoded by hand: octets 4..8, network order)
    fn len_field_ok(b: &[u8]) -> bool { b.len() >= HDR && be32(&b[4..8]) as usize == b.len() }
    /// keep the first `len` of `width` bits
    fn mask(addr: u128, len: u8, width: u8) -> u128 {
        let full: u128 = if width == 32 { u32::MAX as u128 } else { u128::MAX };
        if len == 0 { 0 } else if len >= width { addr & full } else { addr & full & !(full >> len) }
    }

    // ---- reference items -------------------------------------------------------------------------------
    /// a payload item, component by component (the reference the round trip is compared with)
    struct Ref { kind: u64, addr: u128, plen: u8, max: Option<u8>, asn: u32, kid: [u8; 20], key: Vec<u8>, provs: Vec<u32> }
    impl Ref {
        fn item(&self) -> payload::Payload {
            match self.kind {
                0 | 1 => {
                    let p = if self.kind == 0 { Prefix::new_v4(Ipv4Addr::from(self.addr as u32), self.plen) } else { Prefix::new_v6(Ipv6Addr::from(self.addr), self.plen) };
                    let p = p.expect("a masked address with an in-range length is a prefix");
                    payload::Payload::origin(MaxLenPrefix::new(p, self.max).expect("prefix length <= max length <= width is accepted"), Asn::from_u32(self.asn))
                }
                2 => payload::Payload::router_key(self.kid.into(), Asn::from_u32(self.asn), RouterKeyInfo::new(Bytes::from(self.key.clone())).expect("key info fits")),
                _ => payload::Payload::aspa(Asn::from_u32(self.asn), ProviderAsns::try_from_iter(self.provs.iter().map(|a| Asn::from_u32(*a))).expect("at most MAX_COUNT providers fit")),
            }
        }
        /// `got` is this item (ASPA withdraw: the provider list is documented as dropped, not compared)
        fn same(&self, got: &payload::Payload, announce: bool) -> bool {
            match (self.kind, got) {
                (0, payload::Payload::Origin(o)) => o.prefix.addr() == IpAddr::V4(Ipv4Addr::from(self.addr as u32)) && o.prefix.prefix_len() == self.plen && o.prefix.resolved_max_len() == self.max.unwrap_or(self.plen) && o.asn.into_u32() == self.asn,
                (1, payload::Payload::Origin(o)) => o.prefix.addr() == IpAddr::V6(Ipv6Addr::from(self.addr)) && o.prefix.prefix_len() == self.plen && o.prefix.resolved_max_len() == self.max.unwrap_or(self.plen) && o.asn.into_u32() == self.asn,
                (2, payload::Payload::RouterKey(k)) => k.key_identifier.as_slice() == &self.kid[..] && k.asn.into_u32() == self.asn && k.key_info.as_slice() == &self.key[..],
                (3, payload::Payload::Aspa(a)) => a.customer.into_u32() == self.asn && (!announce || a.providers.iter().map(|x| x.into_u32()).collect::<Vec<_>>() == self.provs),
                _ => false,
            }
        }
    }
    fn same_pair(r: &Ref, got: &Result<(payload::Action, payload::Payload), Error>, announce: bool) -> bool {
        match got { Ok((act, it)) => matches!(act, payload::Action::Announce) == announce && r.same(it, announce), Err(_) => false }
    }

    //@harness pdu_w_payload W fn=Payload::{new,new_if_supported,read,write,to_payload},Ipv4Prefix::{new,read,try_read,read_payload,write},Ipv6Prefix::{new,read,try_read,read_payload,write},RouterKey::{new,read,read_payload,write},RouterKeyInfo::{new,read},Aspa::{new,read,read_payload,write},ProviderAsns::{try_from_iter,read,iter},Header::read,Prefix::{new_v4_relaxed,new_v6_relaxed},Bits::clear_host,MaxLenPrefix::new n=80000 timeout=600
    verif_search!{ pdu_w_payload; |r: u64, a4: u32, a6: u128, plen: u8, mlen: u8, asn: u32, kid: [u8; 20], klen: u16, pcnt: u16, p0: u32, p1: u32, f1: u8, f2: u8| {
        let mut g = Sel::new(&[r as u128, a4 as u128, a6, plen as u128, mlen as u128, asn as u128, klen as u128, pcnt as u128, p0 as u128, p1 as u128, f1 as u128, f2 as u128, kid[0] as u128, kid[19] as u128]);
        let kind = g.pick(4);                                   // v4 origin, v6 origin, router key, ASPA
        let announce = g.pick(2) == 1;
        let flags: u8 = if announce { 1 } else { 0 };           // bit 0 set = announce (RFC 8210 5.6)
        let min_version: u8 = match kind { 2 => 1, 3 => 2, _ => 0 };
        let version = min_version + g.pick(3 - min_version as u64) as u8;
        // the item: boundary-rich lengths (0, width, width-1, 1), max length absent / equal / width / between
        let width: u8 = if kind == 0 { 32 } else { 128 };
        let pl = match g.pick(6) { 0 => 0, 1 => width, 2 => width - 1, 3 => 1, _ => plen % (width + 1) };
        let max = match g.pick(4) { 0 => None, 1 => Some(pl), 2 => Some(width), _ => Some(pl + mlen % (width - pl + 1)) };
        let raw_addr = if kind == 0 { a4 as u128 } else { a6 };
        let raw_addr = match g.pick(5) { 0 => raw_addr ^ 0x5A5A_5A5A_5A5A_5A5A_5A5A_5A5A_5A5A_5A5B, 1 => !raw_addr, _ => raw_addr };
        let key_n = match g.pick(10) { 0 => 0, 1 => 1, 2 => 91, 3 => 1023, 4 => 1024, 5 => 1025, 6 => 2048 + (klen as usize % 3000), 7 => if g.pick(8) == 0 { 66000 } else { 300 }, _ => klen as usize % 200 };
        let prov_n = match g.pick(10) { 0 => 0, 1 => 1, 2 => 2, 3 => 255, 4 => 256, 5 => 257, 6 => if g.pick(6) == 0 { ProviderAsns::MAX_COUNT } else { 1000 }, 7 => if g.pick(6) == 0 { ProviderAsns::MAX_COUNT - 1 } else { 3 }, _ => pcnt as usize % 40 };
        let rf = Ref {
            kind, addr: mask(raw_addr, pl, width), plen: pl, max, asn, kid,
            key: if kind == 2 { pattern(key_n, &kid) } else { Vec::new() },
            provs: if kind == 3 { (0..prov_n).map(|i| match i % 4 { 0 => p0.wrapping_add(i as u32 / 4), 1 => p1.wrapping_sub(i as u32), 2 => u32::MAX - (i as u32 / 4), _ => i as u32 / 4 }).collect() } else { Vec::new() },
        };
        let item = rf.item();
        let pdu = Payload::new(version, flags, item.as_ref());
        // clause: new_if_supported gives the same PDU exactly from the version that introduced the payload type
        for v in 0..3u8 {
            match Payload::new_if_supported(v, flags, item.as_ref()) {
                Some(p) => assert!(v >= min_version && p == Payload::new(v, flags, item.as_ref()), "new_if_supported: origins from v0, router keys from v1, ASPA from v2"),
                None => assert!(v < min_version, "new_if_supported refuses only versions older than the payload type"),
            }
        }
        // clause: to_payload(new(..)) gives back (action, item), version kept
        assert!(same_pair(&rf, &pdu.to_payload(), announce), "Payload::to_payload(Payload::new(..)) gives back (action, item)");
        assert!(pdu.version() == version, "Payload::new keeps the version");
        // clause: the length field equals the number of bytes written
        let bytes = wr!(pdu, g);
        assert!(len_field_ok(&bytes), "header length field equals the number of bytes written");
        // clause: read back through Payload::read: same PDU, item, action, version; consumes exactly the PDU
        let stream = with_trailer(&bytes, 8 + g.pick(40));
        let (got, used) = rd!(&stream, g, |s| Payload::read(s));
        let back = match got { Ok(Ok(Some(p))) => p, _ => panic!("Payload::read gives back a payload PDU written by the library") };
        assert!(used == bytes.len(), "Payload::read consumes exactly the announced length");
        assert!(back == pdu && back.version() == version, "Payload::read gives back the written PDU and version");
        assert!(same_pair(&rf, &back.to_payload(), announce), "written and read back: same item and action");
        // clause: the type's own read / try_read / header + read_payload agree
        macro_rules! own { ($t:ident, $variant:ident) => {{
            let (x, used) = rd!(&stream, g, |s| $t::read(s));
            assert!(matches!(&x, Ok(x) if Payload::$variant(x.clone()) == pdu) && used == bytes.len(), "read() of the PDU type gives back the written PDU and consumes exactly its length");
            let (x, used) = rd!(&stream, g, |s| async move { let h = Header::read(&mut *s).await?; $t::read_payload(h, &mut *s).await });
            assert!(matches!(&x, Ok(x) if Payload::$variant(x.clone()) == pdu) && used == bytes.len(), "Header::read + read_payload give back the written PDU and consume exactly its length");
        }} }
        macro_rules! own_try { ($t:ident, $variant:ident) => {{
            let (x, used) = rd!(&stream, g, |s| $t::try_read(s));
            assert!(matches!(&x, Ok(Ok(x)) if Payload::$variant(*x) == pdu) && used == bytes.len(), "try_read() gives back the written PDU and consumes exactly its length");
        }} }
        match kind {
            0 => { own!(Ipv4Prefix, V4); own_try!(Ipv4Prefix, V4); }
            1 => { own!(Ipv6Prefix, V6); own_try!(Ipv6Prefix, V6); }
            2 => { own!(RouterKey, RouterKey); }
            _ => { own!(Aspa, Aspa); }
        }
        // clause: prefix length / max length bounds on the wire: accepted exactly for plen <= max <= width,
        // the item then has exactly these lengths and the address cut to plen; never a panic
        if kind < 2 {
            let mut wire = |g: &mut Sel, raw: u8| match g.pick(6) { 0 => width, 1 => width + 1, 2 => 0, 3 => raw % (width + 2), 4 => pl, _ => raw };
            let (wp, wm) = (wire(&mut g, f1), wire(&mut g, f2));
            let mut t = stream.clone();
            t[9] = wp; t[10] = wm;
            let in_bounds = wp <= wm && wm <= width;
            let (got, _) = rd!(&t, g, |s| Payload::read(s));
            let res = match got { Ok(Ok(Some(p))) => Some(p.to_payload()), _ => None };
            match res {
                Some(Ok((act, it))) => {
                    assert!(in_bounds, "a PDU with prefix length > max length or a length beyond the address width is refused");
                    let want = Ref { addr: mask(rf.addr, wp, width), plen: wp, max: Some(wm), key: Vec::new(), provs: Vec::new(), ..rf };
                    assert!(matches!(act, payload::Action::Announce) == announce && want.same(&it, announce), "in-bounds lengths from the wire arrive unchanged in the item");
                }
                // (address bits beyond a shortened prefix length: the library cuts them; acceptance is not demanded)
                Some(Err(e)) => {
                    assert!(!in_bounds || rf.addr != mask(rf.addr, wp, width), "a PDU with prefix length <= max length <= width is accepted");
                    assert!(len_field_ok(e.as_ref()), "the error PDU reporting the refusal is itself consistent");
                }
                None => assert!(!in_bounds || rf.addr != mask(rf.addr, wp, width), "a PDU with prefix length <= max length <= width is accepted"),
            }
        }
    }}

    // The property statement as given: "every payload item (.., ASPA) with EITHER action .. read back yields the same
    // item".  KNOWN FINDING (known_findings.txt, C07): an ASPA withdrawal written with a non-empty provider list comes
    // back from to_payload with an empty one (Payload::new writes the providers, make_payload drops them on withdraw).
    // pdu_w_payload above leaves that comparison out; this harness states it, so that the finding is shown by a cheap
    // native run in the quick tier (the complete Kani harness pdu_payload_aspa_withdraw_roundtrip is in the thorough tier).
    //@harness pdu_w_aspa_withdraw_providers W fn=Payload::new,Payload::to_payload,Aspa::new
    verif_search!{ pdu_w_aspa_withdraw_providers; |customer: u32, p0: u32, n: u8| {
        let provs: Vec<u32> = (0..(n % 4) as u32).map(|i| p0.wrapping_add(i)).collect();
        let item = payload::Payload::aspa(Asn::from_u32(customer), ProviderAsns::try_from_iter(provs.iter().map(|a| Asn::from_u32(*a))).expect("a few providers fit"));
        let pdu = Payload::new(2, 0, item.as_ref());            // flags 0 = withdraw
        match pdu.to_payload() {
            Ok((act, payload::Payload::Aspa(a))) => {
                assert!(matches!(act, payload::Action::Withdraw) && a.customer.into_u32() == customer, "same action and customer");
                assert!(a.providers.iter().map(|x| x.into_u32()).collect::<Vec<_>>() == provs, "an ASPA withdrawal read back yields the same item (provider list included)");
            }
            _ => panic!("an ASPA PDU written by the library converts back to an ASPA item"),
        }
    }}

    //@harness pdu_w_control W fn=SerialNotify::{new,read,try_read,read_payload,write},SerialQuery::{new,read,try_read,read_payload,write},SerialQueryPayload::{read,serial},ResetQuery::{new,read,try_read,read_payload,write},CacheResponse::{new,read,try_read,read_payload,write},CacheReset::{new,read,try_read,read_payload,write},EndOfData::{new,read_payload,write,version,session,serial,timing},EndOfDataV0::{new,read,try_read},EndOfDataV1::{new,read,try_read,timing},Payload::read,Error::{new,write,skip_payload},Header::{read,new} n=80000 timeout=600
    verif_search!{ pdu_w_control; |r: u64, session: u16, serial: u32, refresh: u32, retry: u32, expire: u32, code: u16, elen: u16, eseed: [u8; 8], tlen: u8, text: [u8; 24]| {
        let mut g = Sel::new(&[r as u128, session as u128, serial as u128, refresh as u128, retry as u128, expire as u128, code as u128, elen as u128, tlen as u128, eseed[0] as u128, text[0] as u128]);
        let version = g.pick(3) as u8;
        let state = State::from_parts(session, Serial(serial));
        let timing = payload::Timing { refresh, retry, expire };
        let trailer = 8 + g.pick(40);
        // write, check the length field, read back with read / try_read / Header::read + read_payload:
        // always the written PDU, exactly its length consumed
        macro_rules! fixed { ($t:ident, $pdu:expr) => {{
            let pdu: $t = $pdu;
            let bytes = wr!(pdu, g);
            assert!(len_field_ok(&bytes), "header length field equals the number of bytes written");
            let stream = with_trailer(&bytes, trailer);
            let (x, used) = rd!(&stream, g, |s| $t::read(s));
            assert!(matches!(&x, Ok(x) if *x == pdu) && used == bytes.len(), "read() gives back the written control PDU and consumes exactly its length");
            let (y, used) = rd!(&stream, g, |s| $t::try_read(s));
            assert!(matches!(&y, Ok(Ok(y)) if *y == pdu) && used == bytes.len(), "try_read() gives back the written control PDU and consumes exactly its length");
            let (z, used) = rd!(&stream, g, |s| async move { let h = Header::read(&mut *s).await?; $t::read_payload(h, &mut *s).await });
            assert!(matches!(&z, Ok(z) if *z == pdu) && used == bytes.len(), "Header::read + read_payload give back the written control PDU and consume exactly its length");
            (x.unwrap(), stream)
        }} }
        match g.pick(9) {
            0 => {
                let (x, _) = fixed!(SerialNotify, SerialNotify::new(version, state));
                let got_serial = u32::from_be(x.serial);
                assert!(x.version() == version && x.session() == session && got_serial == serial, "serial notify: same version, session, serial");
            }
            1 => {
                let (x, stream) = fixed!(SerialQuery, SerialQuery::new(version, state));
                let p = x.payload;
                assert!(x.version() == version && x.session() == session && p.serial().0 == serial, "serial query: same version, session, serial");
                // the server's way: header, then the payload alone
                let (q, used) = rd!(&stream, g, |s| async move { let h = Header::read(&mut *s).await?; let p = SerialQueryPayload::read(&mut *s).await?; Ok::<_, io::Error>((h, p)) });
                assert!(matches!(&q, Ok((h, p)) if h.version() == version && h.pdu() == 1 && h.session() == session && h.length() == 12 && p.serial().0 == serial) && used == 12, "Header::read + SerialQueryPayload::read: same version, session, serial");
            }
            2 => { let (x, _) = fixed!(ResetQuery, ResetQuery::new(version)); assert!(x.version() == version, "reset query: same version"); }
            3 => { let (x, _) = fixed!(CacheResponse, CacheResponse::new(version, state)); assert!(x.version() == version && x.session() == session, "cache response: same version and session"); }
            4 => { let (x, _) = fixed!(CacheReset, CacheReset::new(version)); assert!(x.version() == version, "cache reset: same version"); }
            5 | 6 => {
                // end of data: the v0 layout for version 0, the long layout with the timers from version 1
                let pdu = EndOfData::new(version, state, timing);
                let bytes = wr!(pdu, g);
                assert!(len_field_ok(&bytes), "header length field equals the number of bytes written");
                let stream = with_trailer(&bytes, trailer);
                let (got, used) = rd!(&stream, g, |s| Payload::read(s));
                let eod = match got { Ok(Err(eod)) => eod, _ => panic!("Payload::read gives back an end-of-data PDU written by the library") };
                assert!(used == bytes.len(), "Payload::read consumes exactly the end-of-data PDU");
                assert!(eod == pdu && eod.version() == version && eod.session() == session && eod.serial().0 == serial, "end of data: same version, session, serial");
                assert!(eod.state().session() == session && eod.state().serial().0 == serial, "end of data: state() is (session, serial)");
                if version >= 1 {
                    assert!(matches!(eod.timing(), Some(t) if t.refresh == refresh && t.retry == retry && t.expire == expire), "end of data v1+: same timing");
                }
                match pdu {
                    EndOfData::V0(inner) => { let (x, _) = fixed!(EndOfDataV0, inner); assert!(x.version() == 0 && x.session() == session && x.serial().0 == serial, "end of data v0: same session, serial"); }
                    EndOfData::V1(inner) => {
                        let (x, _) = fixed!(EndOfDataV1, inner);
                        let t = x.timing();
                        assert!(x.version() == version && x.session() == session && x.serial().0 == serial && t.refresh == refresh && t.retry == retry && t.expire == expire, "end of data v1+: same version, session, serial, timing");
                    }
                }
            }
            _ => {
                // error report: code, erroneous PDU (also longer than any read buffer) and text
                let en = match g.pick(10) { 0 => 0, 1 => 8, 2 => 20, 3 => 1023, 4 => 1024, 5 => 1025, 6 => 1008 + (elen as usize % 40), 7 => 2000 + elen as usize, _ => elen as usize % 64 };
                let inner = pattern(en, &eseed);
                let txt = &text[..(tlen as usize) % 25];
                let pdu = Error::new(version, code, &inner, txt);
                let bytes = wr!(pdu, g);
                assert!(len_field_ok(&bytes), "header length field equals the number of bytes written");
                // decoded by hand (RFC 8210 5.11): header, length + erroneous PDU, length + text
                assert!(bytes.len() == 16 + en + txt.len() && bytes[0] == version && bytes[1] == 10 && be16(&bytes[2..4]) == code
                    && be32(&bytes[8..12]) as usize == en && &bytes[12..12 + en] == &inner[..]
                    && be32(&bytes[12 + en..16 + en]) as usize == txt.len() && &bytes[16 + en..] == txt,
                    "error PDU: version, code, erroneous PDU and text are all on the wire, with their lengths");
                let stream = with_trailer(&bytes, trailer);
                let (h, used) = rd!(&stream, g, |s| async move { let h = Header::read(&mut *s).await?; Error::skip_payload(h, &mut *s).await?; Ok::<_, io::Error>(h) });
                assert!(matches!(&h, Ok(h) if h.version() == version && h.pdu() == 10 && h.session() == code && h.length() as usize == bytes.len()), "error PDU: header read back with the same version and code; the payload is skipped without error");
                assert!(used == bytes.len(), "Error::skip_payload consumes exactly the announced length");
                // try_read of another type hands out the error PDU's header after exactly the header
                let (t, used) = rd!(&stream, g, |s| CacheResponse::try_read(s));
                assert!(matches!(&t, Ok(Err(h)) if h.version() == version && h.pdu() == 10 && h.session() == code && h.length() as usize == bytes.len()) && used == HDR, "try_read hands out the header of an error PDU");
            }
        }
    }}

    // ---- broken streams --------------------------------------------------------------------------------
    #[derive(Clone, Copy, PartialEq, Eq, Debug)]
    enum Got { Pdu, ErrHdr, Fail }
    #[derive(Clone, Copy, PartialEq, Eq, Debug)]
    enum Rd { Own, Try, Generic }
    /// What the property demands from a reader expecting PDU type `t` (`fixed`: its size if it has one;
    /// Generic = Payload::read, dispatching on the type it finds) on a stream of `avail` octets that starts
    /// with the header (ver, typ, len).  None: no demand (where the library's readers legitimately differ).
    fn want(rd: Rd, t: u8, fixed: Option<u64>, ver: u8, typ: u8, len: u64, avail: usize) -> Option<Got> {
        if avail < HDR { return Some(Got::Fail) }                        // not even a header
        if rd == Rd::Try && typ == 10 { return Some(Got::ErrHdr) }       // documented: the error PDU's header
        let (t, fixed) = if rd == Rd::Generic {
            match typ { 4 => (4, Some(20)), 6 => (6, Some(32)), 7 | 9 | 11 => (typ, None), _ => return Some(Got::Fail) }
        } else { (t, fixed) };
        if typ != t { return Some(Got::Fail) }                           // wrong type
        let eod_ok = (ver == 0 && len == 12) || ((ver == 1 || ver == 2) && len == 24);
        let len_ok = match (t, fixed) {
            (7, None) => eod_ok,                                         // version decides the layout
            (7, Some(s)) => { if len == s && !eod_ok { return None } len == s }   // EndOfDataV0/V1::read do not look at the version
            (_, Some(s)) => len == s,
            (9, None) => len >= 32,                                      // header, key identifier, ASN, then the key info
            (11, None) => len >= 12 && (len - 12) % 4 == 0,              // header, customer, then whole provider ASNs
            (10, None) => { if len >= 8 && len < 16 { return None } len >= 16 }   // header and the two length fields
            _ => return None,
        };
        Some(if len_ok && avail as u64 >= len { Got::Pdu } else { Got::Fail })
    }
    /// run every reader the library offers for PDU kind `k` on `data`: (reader, expected type, fixed size, outcome, consumed)
    fn readers(k: u64, data: &[u8], g: &mut Sel) -> Vec<(Rd, u8, Option<u64>, Got, usize)> {
        let mut out = Vec::new();
        fn g1<T>(r: &Result<T, io::Error>) -> Got { if r.is_ok() { Got::Pdu } else { Got::Fail } }
        macro_rules! fixed { ($t:ident) => {{
            let size = Some(mem::size_of::<$t>() as u64);
            let (r, u) = rd!(data, g, |s| $t::read(s)); out.push((Rd::Own, $t::PDU, size, g1(&r), u));
            let (r, u) = rd!(data, g, |s| $t::try_read(s));
            out.push((Rd::Try, $t::PDU, size, match r { Ok(Ok(_)) => Got::Pdu, Ok(Err(_)) => Got::ErrHdr, Err(_) => Got::Fail }, u));
            // the client's way: header first, then the payload of the type the header names
            let (r, u) = rd!(data, g, |s| async move {
                let h = Header::read(&mut *s).await?;
                if h.pdu() != $t::PDU { return Err(io::Error::new(io::ErrorKind::InvalidData, "dispatch")) }
                $t::read_payload(h, &mut *s).await
            });
            out.push((Rd::Own, $t::PDU, size, g1(&r), u));
        }} }
        match k {
            0 => fixed!(SerialNotify), 1 => fixed!(SerialQuery), 2 => fixed!(ResetQuery), 3 => fixed!(CacheResponse),
            4 => fixed!(Ipv4Prefix), 5 => fixed!(Ipv6Prefix), 8 => fixed!(EndOfDataV0), 9 => fixed!(EndOfDataV1), 10 => fixed!(CacheReset),
            6 => { let (r, u) = rd!(data, g, |s| RouterKey::read(s)); out.push((Rd::Own, 9, None, g1(&r), u)); }
            7 => {
                let (r, u) = rd!(data, g, |s| Aspa::read(s));
                // an accepted provider list can be walked
                if let Ok(a) = &r { let n = a.providers().iter().count(); assert!(n == a.providers().asn_count() as usize, "an accepted ASPA PDU has a whole number of provider ASNs"); }
                out.push((Rd::Own, 11, None, g1(&r), u));
            }
            _ => {
                // the client's way with an error report: header, then skip the rest
                let (r, u) = rd!(data, g, |s| async move {
                    let h = Header::read(&mut *s).await?;
                    if h.pdu() != Error::PDU { return Err(io::Error::new(io::ErrorKind::InvalidData, "dispatch")) }
                    Error::skip_payload(h, &mut *s).await
                });
                out.push((Rd::Own, 10, None, g1(&r), u));
            }
        }
        if k >= 4 && k <= 9 {
            let (r, u) = rd!(data, g, |s| Payload::read(s));
            if let Ok(Ok(Some(Payload::Aspa(a)))) = &r { let n = a.providers().iter().count(); assert!(n == a.providers().asn_count() as usize, "an accepted ASPA PDU has a whole number of provider ASNs"); }
            out.push((Rd::Generic, 0, None, g1(&r), u));
        }
        out
    }

    //@harness pdu_w_broken W fn=Header::{read,pdu_len},SerialNotify::{read,try_read,read_payload},SerialQuery::{read,try_read,read_payload},ResetQuery::{read,try_read,read_payload},CacheResponse::{read,try_read,read_payload},CacheReset::{read,try_read,read_payload},Ipv4Prefix::{read,try_read,read_payload},Ipv6Prefix::{read,try_read,read_payload},RouterKey::{read,read_payload},RouterKeyInfo::read,Aspa::{read,read_payload},ProviderAsns::{read,iter,asn_count},EndOfData::read_payload,EndOfDataV0::{read,try_read,read_payload},EndOfDataV1::{read,try_read,read_payload},Payload::read,Error::skip_payload n=300000 timeout=600
    verif_search!{ pdu_w_broken; |r: u64, a: u128, session: u16, serial: u32, n: u16, cut: u16, newlen: u32, newtype: u8, newver: u8| {
        let mut g = Sel::new(&[r as u128, a, session as u128, serial as u128, n as u128, cut as u128, newlen as u128, newtype as u128, newver as u128]);
        let kind = g.pick(12);
        let state = State::from_parts(session, Serial(serial));
        let asn = Asn::from_u32(serial);
        // a well-formed PDU of the kind, written by the library
        let bytes: Vec<u8> = match kind {
            0 => wr!(SerialNotify::new(1, state), g),
            1 => wr!(SerialQuery::new(1, state), g),
            2 => wr!(ResetQuery::new(2), g),
            3 => wr!(CacheResponse::new(1, state), g),
            4 => wr!(Ipv4Prefix::new(g.pick(3) as u8, 1, 24, 32, Ipv4Addr::from((a as u32) & 0xFFFF_FF00), asn), g),
            5 => wr!(Ipv6Prefix::new(g.pick(3) as u8, 0, 48, 64, Ipv6Addr::from(a & !(u128::MAX >> 48)), asn), g),
            6 => {
                let kn = match g.pick(8) { 0 => 0, 1 => 1, 2 => 4, 3 => 91, 4 => 1024, 5 => 1500, _ => n as usize % 300 };
                wr!(RouterKey::new(1 + g.pick(2) as u8, g.pick(2) as u8, [session as u8; 20], asn, RouterKeyInfo::new(Bytes::from(pattern(kn, &a.to_le_bytes()))).unwrap()), g)
            }
            7 => {
                let pn = match g.pick(8) { 0 => 0, 1 => 1, 2 => 2, 3 => 3, 4 => 300, _ => n as usize % 20 };
                wr!(Aspa::new(2, g.pick(2) as u8, asn, ProviderAsns::try_from_iter((0..pn).map(|i| Asn::from_u32((a as u32).wrapping_add(i as u32)))).unwrap()), g)
            }
            8 => wr!(EndOfData::new(0, state, Default::default()), g),
            9 => wr!(EndOfData::new(1 + g.pick(2) as u8, state, Default::default()), g),
            10 => wr!(CacheReset::new(1), g),
            _ => {
                let en = match g.pick(8) { 0 => 0, 1 => 8, 2 => 20, 3 => 1000, 4 => 1100, 5 => 3000, _ => n as usize % 64 };
                wr!(Error::new(g.pick(3) as u8, session, pattern(en, &a.to_le_bytes()), &b"broken"[..g.pick(7) as usize]), g)
            }
        };
        let orig = bytes.len();
        assert!(len_field_ok(&bytes), "header length field equals the number of bytes written");
        // what breaks: 0,1 the stream is cut inside the PDU; 2,3 the length; 4 the type; 5 the version;
        // 6 version and length (the other end-of-data layout); 7 type and length
        let what = g.pick(8);
        let mut t = bytes.clone();
        let variable = matches!(kind, 6 | 7 | 11);
        if matches!(what, 2 | 3 | 6 | 7) {
            let o = orig as u64;
            let mut l = match g.pick(9) {
                0 => o - 1, 1 => o + 1, 2 => o + 4, 3 => o - 4, 4 => o + 2, 5 => (newlen % 40) as u64,
                6 => newlen as u64, 7 => if o == 12 { 24 } else if o == 24 { 12 } else { o / 2 }, _ => o - (newlen as u64 % o),
            };
            // announced lengths the variable-length readers allocate for stay moderate (memory is not the subject here)
            if (variable || what == 7) && l > 0x20000 { l %= 0x20000 }
            t[4..8].copy_from_slice(&(l as u32).to_be_bytes());
        }
        if matches!(what, 4 | 7) { t[1] = if g.pick(4) == 0 { newtype } else { [0u8, 1, 2, 3, 4, 6, 7, 8, 9, 10, 11, 5, 12][g.pick(13) as usize] }; }
        if matches!(what, 5 | 6) { t[0] = if g.pick(4) == 0 { newver } else { g.pick(5) as u8 }; }
        let (ver, typ, len) = (t[0], t[1], be32(&t[4..8]) as u64);
        // where the stream ends: inside the PDU (every position), exactly at its end, or after unrelated octets
        let end = if what < 2 { 2 } else { g.pick(5) };
        let stream: Vec<u8> = match end {
            0 => with_trailer(&t, 4 + g.pick(40)),
            1 => t.clone(),
            2 => {
                let c = match g.pick(4) {
                    0 => cut as usize % orig,
                    1 => orig - 1 - (cut as usize % orig.min(4)),
                    2 => [0usize, 1, 7, 8, 9, 11, 12, 19, 31, 32, 33][g.pick(11) as usize].min(orig - 1),
                    _ => g.pick(orig as u64) as usize,
                };
                t[..c].to_vec()
            }
            // enough octets for a (moderately) larger announced length
            _ => with_trailer(&t, if len > orig as u64 && len < 8192 { len - orig as u64 + g.pick(8) } else { 64 }),
        };
        let avail = stream.len();
        for (rd, rt, fixed, got, used) in readers(kind, &stream, &mut g) {
            match want(rd, rt, fixed, ver, typ, len, avail) {
                // clause: a stream that ends early, or a header announcing a wrong type / length / version, ends in an error
                Some(Got::Fail) => assert!(got == Got::Fail, "a stream cut inside the PDU or a header with a wrong type / length / version ends in an error"),
                Some(Got::ErrHdr) => assert!(got == Got::ErrHdr && used == HDR, "try_read hands out the header of an error PDU after exactly the header"),
                _ => {}
            }
            // clause: bounded consumption: an accepted PDU takes exactly its announced length, a refused one
            // never more than the announced length / a small constant past the header
            match got {
                Got::Pdu => assert!(used as u64 == len, "an accepted PDU consumes exactly the announced length"),
                Got::ErrHdr => assert!(used == HDR, "the error PDU's header is handed out after exactly the header"),
                Got::Fail => assert!(used as u64 <= len.max(32), "a refused PDU consumes no more than the announced length / a small constant past the header"),
            }
        }
    }}
}
//@end
