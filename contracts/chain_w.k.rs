// Unit chain_w (C01/C02/C03): WITNESS SEARCH ONLY (kind W) - proves nothing, never counted.
// The generic chain operations are proved unbounded by the Verus units chain_query / chain_trim / chain_diff /
// chain_build / res_sets / roa_aspa_verify on text extracted through anchors.  When a function is
// restructured those units come back *undecided* (lost anchor, unsupported construct).  This unit is the
// anchor-free last line: it runs the COMPILED operations natively on biased random chains (AS numbers: u32,
// addresses: u128, up to 4 blocks per operand, with stress on adjacency, equal bounds and both ends of the
// number space) and compares with an independent interval-list computation of the same postconditions that
// the Verus contracts state.  A hit is a concrete input on which the real code violates its contract; it is
// replayed and reported as a violation.  No hit means nothing.
//@features ca,rtr,slurm

//@append src/repository/resources/chain.rs
#[cfg(any(kani, verif_replay))]
#[allow(dead_code, unused)]
pub(crate) mod verif_chain_w_spec {
    /// an interval list: closed intervals over 0..=top
    pub type Iv = Vec<(u128, u128)>;

    /// canonical form of the union of arbitrary non-empty intervals
    pub fn norm(mut v: Iv) -> Iv {
        v.sort();
        let mut out: Iv = Vec::new();
        for (lo, hi) in v {
            assert!(lo <= hi);
            match out.last_mut() {
                Some(last) if last.1 == u128::MAX || lo <= last.1 + 1 => { if hi > last.1 { last.1 = hi } }
                _ => out.push((lo, hi)),
            }
        }
        out
    }
    pub fn canonical(v: &Iv) -> bool {
        v.iter().all(|b| b.0 <= b.1) && v.windows(2).all(|w| w[0].1 < u128::MAX && w[0].1 + 1 < w[1].0)
    }
    pub fn inter(a: &Iv, b: &Iv) -> Iv {
        let mut out = Vec::new();
        for x in a { for y in b {
            let (lo, hi) = (x.0.max(y.0), x.1.min(y.1));
            if lo <= hi { out.push((lo, hi)) }
        } }
        norm(out)
    }
    /// complement within 0..=top
    pub fn compl(b: &Iv, top: u128) -> Iv {
        let b = norm(b.clone());
        let mut out = Vec::new();
        let mut next: Option<u128> = Some(0);        // first value not yet classified
        for (lo, hi) in b {
            if let Some(n) = next { if n < lo { out.push((n, lo - 1)) } }
            next = if hi >= top { None } else { Some(hi + 1) };
        }
        if let Some(n) = next { if n <= top { out.push((n, top)) } }
        out
    }
    pub fn diff(a: &Iv, b: &Iv, top: u128) -> Iv { inter(a, &compl(b, top)) }
    pub fn subset(a: &Iv, b: &Iv, top: u128) -> bool { diff(a, b, top).is_empty() }
    pub fn has(a: &Iv, x: u128) -> bool { a.iter().any(|b| b.0 <= x && x <= b.1) }
    pub fn count(a: &Iv) -> u128 { a.iter().map(|b| (b.1 - b.0).saturating_add(1)).fold(0u128, |s, x| s.saturating_add(x)) }

    /// a canonical chain of n <= 4 blocks from gap / length parameters.
    /// mode selects the scale: small numbers (so that two chains interact), full width, or a chain pushed
    /// against the top of the number space.  None if the parameters do not fit below `top`.
    pub fn mk(n: u8, p: [u32; 8], mode: u8, top: u128, shift: u32) -> Option<Iv> {
        let n = (n % 5) as usize;
        let small = mode % 4 != 3;
        let sc = |x: u32| -> u128 { (if small { (x % 6) as u128 } else { x as u128 }) << shift };
        let mut out: Iv = Vec::new();
        let mut cur: u128 = 0;
        for i in 0..n {
            let lo = cur.checked_add(sc(p[2 * i]))?;
            let len = sc(p[2 * i + 1]);
            let hi = lo.checked_add(len)?.checked_add(if shift > 0 && len > 0 { (1u128 << shift) - 1 } else { 0 })?;
            if hi > top { return None }
            out.push((lo, hi));
            cur = match hi.checked_add(2) { Some(c) => c, None => { if i + 1 < n { return None } 0 } };
        }
        if mode % 4 == 1 && !out.is_empty() {
            // push against the top
            let d = top - out.last().unwrap().1 - ((mode / 4) % 3) as u128;
            if d <= top { for b in out.iter_mut() { b.0 += d; b.1 += d; } }
        }
        if !canonical(&out) || out.iter().any(|b| b.1 > top) { return None }
        Some(out)
    }
    /// arbitrary non-empty blocks in any order (overlapping, adjacent, repeated)
    pub fn mk_any(n: u8, p: [u32; 8], mode: u8, top: u128) -> Option<Iv> {
        let n = (n % 5) as usize;
        let small = mode % 4 != 3;
        let mut out = Vec::new();
        for i in 0..n {
            let (a, b) = (p[2 * i] as u128, p[2 * i + 1] as u128);
            let (a, b) = if small { (a % 24, b % 24) } else { (a, b) };
            let (mut lo, mut hi) = (a.min(b), a.max(b));
            if mode % 4 == 1 { lo = top - hi.min(top); hi = top - a.min(b).min(top); if lo > hi { core::mem::swap(&mut lo, &mut hi) } }
            if hi > top { return None }
            out.push((lo, hi));
        }
        Some(out)
    }
}
//@end

//@append src/repository/resources/asres.rs
#[cfg(any(kani, verif_replay))]
#[allow(dead_code, unused)]
mod verif_chain_w_as {
    use super::*;
    use crate::verif_support::{assume, reach};
    use crate::repository::resources::chain::verif_chain_w_spec::*;
    use crate::repository::resources::choice::ResourcesChoice;
    use crate::repository::cert::Overclaim;

    const TOP: u128 = u32::MAX as u128;
    fn asn(x: u128) -> Asn { Asn::from_u32(x as u32) }
    fn blk(b: (u128, u128), id: bool) -> AsBlock {
        if id && b.0 == b.1 { AsBlock::Id(asn(b.0)) } else { AsBlock::Range(AsRange::new(asn(b.0), asn(b.1))) }
    }
    fn mkvec(v: &Iv, var: u8) -> Vec<AsBlock> { v.iter().enumerate().map(|(i, b)| blk(*b, var >> i & 1 != 0)).collect() }
    fn chain(v: &Iv, var: u8) -> OwnedChain<AsBlock> { unsafe { OwnedChain::from_vec_unchecked(mkvec(v, var)) } }
    fn blocks(v: &Iv, var: u8) -> AsBlocks { AsBlocks(SharedChain::from_owned(chain(v, var))) }
    fn view(c: &[AsBlock]) -> Iv { c.iter().map(|b| (b.min().into_u32() as u128, b.max().into_u32() as u128)).collect() }
    fn variants_ok(c: &[AsBlock]) -> bool { c.iter().all(|b| matches!(b, AsBlock::Id(_)) == (b.min() == b.max())) }
    fn probes(s: &Iv, o: &Iv, x: u32) -> Vec<u128> {
        let mut v = vec![0, TOP, x as u128];
        for b in s.iter().chain(o.iter()) { for y in [b.0, b.1] { v.push(y); if y > 0 { v.push(y - 1) } if y < TOP { v.push(y + 1) } } }
        v
    }

    //@harness chain_w_as_pair W fn=Chain::{contains_item,is_encompassed,eq,trim,difference},AsBlocks::{contains,intersection,intersection_assign,difference,union,contains_asn,verify_issued,verify_covered,asn_count} n=30000 timeout=600
    verif_search!{ chain_w_as_pair; |n: u8, a0: u32, a1: u32, a2: u32, a3: u32, a4: u32, a5: u32, a6: u32, a7: u32, va: u8, ma: u8,
                                      m: u8, b0: u32, b1: u32, b2: u32, b3: u32, b4: u32, b5: u32, b6: u32, b7: u32, vb: u8, same_mode: bool, mb: u8, x: u32| {
        let mb = if same_mode { ma } else { mb };
        let (s, o) = (mk(n, [a0, a1, a2, a3, a4, a5, a6, a7], ma, TOP, 0), mk(m, [b0, b1, b2, b3, b4, b5, b6, b7], mb, TOP, 0));
        assume(s.is_some() && o.is_some());
        let (s, o) = (s.unwrap(), o.unwrap());
        let (os, oo) = (chain(&s, va), chain(&o, vb));
        let (cs, co) = (os.as_chain(), oo.as_chain());
        for y in probes(&s, &o, x) {
            assert!(cs.contains_item(asn(y)) == has(&s, y), "contains_item(x) == (x in self)");
        }
        assert!(cs.is_encompassed(&oo) == subset(&s, &o, TOP), "is_encompassed == (self is a subset of other)");
        assert!((cs == co) == (s == o), "== is equality of the denoted sets");
        match cs.trim(&oo) {
            Ok(()) => assert!(subset(&s, &o, TOP), "trim Ok ==> self is a subset of other"),
            Err(c) => {
                assert!(view(c.as_slice()) == inter(&s, &o), "trim Err(c): c is the canonical intersection");
            }
        }
        let d = cs.difference(&oo);
        assert!(view(d.as_slice()) == diff(&s, &o, TOP), "difference is the canonical set difference");
        // the AsBlocks wrappers
        let (bs, bo) = (blocks(&s, va), blocks(&o, vb));
        assert!(bs.contains(&bo) == subset(&o, &s, TOP), "AsBlocks::contains == (other is a subset of self)");
        assert!(view(bs.intersection(&bo).0.as_slice()) == inter(&s, &o), "AsBlocks::intersection");
        let mut t = bs.clone(); t.intersection_assign(&bo);
        assert!(view(t.0.as_slice()) == inter(&s, &o), "AsBlocks::intersection_assign");
        assert!(view(bs.difference(&bo).0.as_slice()) == diff(&s, &o, TOP), "AsBlocks::difference");
        let mut both = s.clone(); both.extend(o.iter().cloned());
        assert!(view(bs.union(&bo).0.as_slice()) == norm(both), "AsBlocks::union");
        assert!(bs.contains_asn(asn(x as u128)) == has(&s, x as u128), "AsBlocks::contains_asn");
        assert!(bs.asn_count() as u128 == count(&s).min(TOP), "AsBlocks::asn_count (saturating)");
        // issuance: self = issuer, other = claim
        let claim = AsResources(ResourcesChoice::Blocks(bo.clone()));
        match bs.verify_issued(&claim, Overclaim::Refuse) {
            Ok(r) => { assert!(subset(&o, &s, TOP), "refuse: Ok ==> claim covered"); assert!(view(r.0.as_slice()) == o, "refuse: result is the claim"); }
            Err(_) => assert!(!subset(&o, &s, TOP), "refuse: Err ==> claim not covered"),
        }
        match bs.verify_issued(&claim, Overclaim::Trim) {
            Ok(r) => assert!(view(r.0.as_slice()) == inter(&o, &s), "trim policy: result is the intersection"),
            Err(_) => assert!(false, "trim policy never fails"),
        }
        assert!(bo.verify_covered(&AsResources(ResourcesChoice::Blocks(bs.clone()))).is_ok() == subset(&o, &s, TOP), "verify_covered == covered");
    }}

    //@harness chain_w_as_from_iter W fn=OwnedChain::from_iter,from_iter_unsorted,merge_or_add_block n=30000 timeout=600
    verif_search!{ chain_w_as_from_iter; |n: u8, a0: u32, a1: u32, a2: u32, a3: u32, a4: u32, a5: u32, a6: u32, a7: u32, va: u8, ma: u8| {
        let s = mk_any(n, [a0, a1, a2, a3, a4, a5, a6, a7], ma, TOP);
        assume(s.is_some());
        let s = s.unwrap();
        let c = OwnedChain::<AsBlock>::from_iter(mkvec(&s, va));
        assert!(view(c.as_slice()) == norm(s.clone()), "from_iter is the canonical union of the input blocks");
        assert!(variants_ok(c.as_slice()), "from_iter: blocks in canonical representation");
    }}
}
//@end

//@append src/repository/resources/ipres.rs
#[cfg(any(kani, verif_replay))]
#[allow(dead_code, unused)]
mod verif_chain_w_ip {
    use super::*;
    use crate::verif_support::{assume, reach};
    use crate::repository::resources::chain::verif_chain_w_spec::*;
    use crate::repository::cert::Overclaim;
    use crate::repository::roa::RoaIpAddress;

    const TOP: u128 = u128::MAX;
    fn chain(v: &Iv) -> IpBlocks {
        IpBlocks(SharedChain::from_owned(unsafe { OwnedChain::from_vec_unchecked(
            v.iter().map(|b| IpBlock::from((Addr::from_bits(b.0), Addr::from_bits(b.1)))).collect()) }))
    }
    fn view(c: &IpBlocks) -> Iv { c.iter().map(|b| (b.min().to_bits(), b.max().to_bits())).collect() }
    /// a block that is exactly a prefix must be stored as one
    fn variants_ok(c: &IpBlocks) -> bool {
        c.iter().all(|b| {
            let (lo, hi) = (b.min().to_bits(), b.max().to_bits());
            let span = lo ^ hi;
            let is_pfx = (span == u128::MAX || (span & span.wrapping_add(1)) == 0) && (lo & span) == 0 && (hi & span) == span;
            matches!(b, IpBlock::Prefix(_)) == is_pfx
        })
    }

    //@harness chain_w_ip_pair W fn=IpBlocks::{contains,intersection,intersection_assign,difference,union,contains_roa,contains_block,intersects_block,verify_issued,verify_covered} n=30000 timeout=600
    verif_search!{ chain_w_ip_pair; |n: u8, a0: u32, a1: u32, a2: u32, a3: u32, a4: u32, a5: u32, a6: u32, a7: u32, ma: u8, sh: u8,
                                      m: u8, b0: u32, b1: u32, b2: u32, b3: u32, b4: u32, b5: u32, b6: u32, b7: u32, same_mode: bool, mb: u8,
                                      q0: u32, q1: u32, plen: u8| {
        let mb = if same_mode { ma } else { mb };
        let shift = [0u32, 0, 8, 96, 120, 64][(sh % 6) as usize];
        let (s, o) = (mk(n, [a0, a1, a2, a3, a4, a5, a6, a7], ma, TOP, shift), mk(m, [b0, b1, b2, b3, b4, b5, b6, b7], mb, TOP, shift));
        assume(s.is_some() && o.is_some());
        let (s, o) = (s.unwrap(), o.unwrap());
        let (bs, bo) = (chain(&s), chain(&o));
        assert!(view(&bs) == s && view(&bo) == o, "construction keeps the bounds");
        assert!(bs.contains(&bo) == subset(&o, &s, TOP), "IpBlocks::contains == (other is a subset of self)");
        let i = bs.intersection(&bo);
        assert!(view(&i) == inter(&s, &o) && variants_ok(&i), "IpBlocks::intersection");
        let mut t = bs.clone(); t.intersection_assign(&bo);
        assert!(view(&t) == inter(&s, &o) && variants_ok(&t), "IpBlocks::intersection_assign");
        let d = bs.difference(&bo);
        assert!(view(&d) == diff(&s, &o, TOP) && variants_ok(&d), "IpBlocks::difference");
        let mut both = s.clone(); both.extend(o.iter().cloned());
        let u = bs.union(&bo);
        assert!(view(&u) == norm(both) && variants_ok(&u), "IpBlocks::union");
        // a probe block in the same scale
        let small = ma % 4 != 3;
        let f = |x: u32| -> u128 { (if small { (x % 40) as u128 } else { x as u128 }) << shift };
        let (lo, hi) = (f(q0).min(f(q1)), f(q0).max(f(q1)) | if shift > 0 { (1u128 << shift) - 1 } else { 0 });
        let probe: Iv = vec![(lo, hi)];
        assert!(bs.contains_block((Addr::from_bits(lo), Addr::from_bits(hi))) == subset(&probe, &s, TOP), "contains_block == block inside the set");
        assert!(bs.intersects_block((Addr::from_bits(lo), Addr::from_bits(hi))) == !inter(&probe, &s).is_empty(), "intersects_block == block meets the set");
        // a ROA prefix
        let plen = plen % 129;
        let host: u128 = if plen == 0 { u128::MAX } else if plen == 128 { 0 } else { (1u128 << (128 - plen as u32)) - 1 };
        let base = f(q0) & !host;
        let roa = RoaIpAddress::new(Prefix::new(Addr::from_bits(base), plen), None);
        assert!(bs.contains_roa(&roa) == subset(&vec![(base, base | host)], &s, TOP), "contains_roa == prefix range inside the set");
        // issuance: self = issuer, other = claim
        let claim = IpResources(ResourcesChoice::Blocks(bo.clone()));
        match bs.verify_issued(&claim, Overclaim::Refuse) {
            Ok(r) => { assert!(subset(&o, &s, TOP), "refuse: Ok ==> claim covered"); assert!(view(&r) == o, "refuse: result is the claim"); }
            Err(_) => assert!(!subset(&o, &s, TOP), "refuse: Err ==> claim not covered"),
        }
        match bs.verify_issued(&claim, Overclaim::Trim) {
            Ok(r) => assert!(view(&r) == inter(&o, &s), "trim policy: result is the intersection"),
            Err(_) => assert!(false, "trim policy never fails"),
        }
        assert!(bo.verify_covered(&IpResources(ResourcesChoice::Blocks(bs.clone()))).is_ok() == subset(&o, &s, TOP), "verify_covered == covered");
    }}
}
//@end
