// Unit block_leaves (C03), Kani side: the leaf contract that the Verus chain units ASSUME
// (trait `Block` in shared/chain_env.v.rs: ord_law, new/min/max/next/previous, clone) proved on
// the compiled code for the four real implementors
//     AsBlock, AsRange      (item Asn,  val = the wrapped u32)
//     IpBlock, AddressRange (item Addr, val = the wrapped u128)
// plus the canonical-form clauses of the property ("ranges that are prefixes are expressed as
// prefixes, and only those", `AsBlock::new` is `Id` iff min == max), `Addr::to_min/to_max`,
// `ipres::Prefix::{new,min,max,range}`, the item counts `AsRange/AsBlock::asn_count`, and the std
// facts the Verus unit range_prefixes assumes (u128 bit counts, Ipv4Addr <-> u32).
// Kind K harnesses are loop-free over full-domain scalar inputs, or contain one loop of fixed width
// (129 prefix lengths) unwound completely with unwinding assertions on.
// Kind Kb harnesses are bounded in their INPUT FAMILY (a fixed DER / text shape with symbolic octets,
// or ranges confined to 4 low bits for the decomposition cross-checks); they are never counted as proofs.
//
// The following harnesses FAILED on the tree before /repo commits 07d3485 and f7cbdfa and exposed genuine
// defects (each reproduced natively; now repaired, see /verif/known_findings.txt):
//   bl_asn_count_total, bl_as_der_count           asn_count overflows on the whole range 0-4294967295
//   bl_as_der_lo_le_hi, bl_as_text_lo_le_hi,
//   bl_ip_der_lo_le_hi, bl_ip_der_family_lo_le_hi  decoders / parsers accept ranges with min > max
//@features ca,rtr,slurm

//@append src/repository/resources/asres.rs
#[cfg(any(kani, verif_replay))]
#[allow(dead_code, unused)]
mod verif_block_leaves_as {
    use super::*;
    use crate::verif_support::{assume, reach};

    fn asn(x: u32) -> Asn { Asn::from_u32(x) }
    /// the order embedding `val` of chain_env for Item = Asn
    fn val(x: Asn) -> u32 { x.into_u32() }

    // ---------------- ord_law for Item = Asn ---------------------------------------------
    //@harness bl_asn_ord_law K fn=derive(Ord,PartialOrd,Eq,PartialEq)(Asn)
    verif_harness!{ bl_asn_ord_law; |a: u32, b: u32, sa: bool, sb: bool| {
        let (x, y) = (asn(a), asn(b));
        assert!(val(x) == a && val(y) == b, "val inverts from_u32 (val is injective: val(a)==val(b) ==> a==b)");
        assert!(u32::from(x) == a && Asn::from(a) == x, "From conversions are the same embedding");
        assert!((x == y) == (a == b), "eq_spec(a,b) == (val(a) == val(b))");
        assert!((x != y) == (a != b), "ne agrees");
        assert!(x.partial_cmp(&y) == Some(a.cmp(&b)), "partial_cmp_spec == Some(int_cmp)");
        assert!(x.cmp(&y) == a.cmp(&b), "cmp_spec == int_cmp");
        assert!((x < y) == (a < b) && (x <= y) == (a <= b) && (x > y) == (a > b) && (x >= y) == (a >= b), "operators agree");
        assert!(std::cmp::min(x, y) == asn(if a <= b { a } else { b }), "cmp::min");
        assert!(std::cmp::max(x, y) == asn(if a >= b { a } else { b }), "cmp::max");
        // Option<Item> equality (used by the chain code on next()/previous() results)
        let (ox, oy) = (if sa { Some(x) } else { None }, if sb { Some(y) } else { None });
        assert!((ox == oy) == (sa == sb && (!sa || a == b)), "Option<Asn> equality is structural");
        assert!(val(Asn::MIN) == u32::MIN && val(Asn::MAX) == u32::MAX, "item_min / item_max");
    }}

    // ---------------- Block for AsBlock ---------------------------------------------------
    //@harness bl_as_block_new K fn=<AsBlock_as_Block>::{new,min,max},AsBlock::{min,max},Clone
    verif_harness!{ bl_as_block_new; |a: u32, b: u32| {
        let r = <AsBlock as Block>::new(asn(a), asn(b));
        assert!(val(<AsBlock as Block>::min(&r)) == a, "Block::min(new(a,b)) == a");
        assert!(val(<AsBlock as Block>::max(&r)) == b, "Block::max(new(a,b)) == b");
        assert!(val(AsBlock::min(&r)) == a && val(AsBlock::max(&r)) == b, "inherent min/max");
        assert!(r.bounds() == (asn(a), asn(b)), "bounds");
        // canonical form: a single number is expressed as Id, and only that
        assert!(matches!(r, AsBlock::Id(_)) == (a == b), "new(a,b) is the Id variant iff a == b");
        let c = r.clone();
        assert!(val(c.min()) == a && val(c.max()) == b, "clone preserves bounds");
        assert!(matches!(c, AsBlock::Id(_)) == matches!(r, AsBlock::Id(_)), "clone preserves the variant");
    }}
    //@harness bl_as_block_variants K fn=AsBlock::{min,max},From<Asn>,From<AsRange>,From<(Asn,Asn)>,PartialEq
    verif_harness!{ bl_as_block_variants; |a: u32, b: u32, c: u32, d: u32| {
        let id = AsBlock::from(asn(a));
        assert!(matches!(id, AsBlock::Id(_)) && val(id.min()) == a && val(id.max()) == a, "Id(a) is [a,a]");
        let rg = AsBlock::from(AsRange::new(asn(a), asn(b)));
        assert!(matches!(rg, AsBlock::Range(_)) && val(rg.min()) == a && val(rg.max()) == b, "Range keeps bounds");
        let tp = AsBlock::from((asn(a), asn(b)));
        assert!(val(tp.min()) == a && val(tp.max()) == b, "From<(Asn,Asn)> keeps bounds");
        // equality of blocks is equality of the denoted interval, whatever the variant
        let other = AsBlock::from((asn(c), asn(d)));
        assert!((tp == other) == (a == c && b == d), "AsBlock == is equality of bounds");
        assert!((AsBlock::Id(asn(a)) == other) == (a == c && a == d), "Id(a) == Range(a,a)");
        assert!(AsBlock::all().min() == Asn::MIN && AsBlock::all().max() == Asn::MAX && AsBlock::all().is_whole_range(), "all()");
        assert!(tp.is_whole_range() == (a == 0 && b == u32::MAX), "is_whole_range");
    }}
    //@harness bl_as_block_next_prev K fn=<AsBlock_as_Block>::{next,previous}
    verif_harness!{ bl_as_block_next_prev; |x: u32| {
        let n = <AsBlock as Block>::next(asn(x));
        let p = <AsBlock as Block>::previous(asn(x));
        match n { Some(n) => assert!(x < u32::MAX && val(n) == x + 1, "next is x+1"), None => assert!(x == u32::MAX, "next is None only at the maximum") }
        match p { Some(p) => assert!(x > 0 && val(p) == x - 1, "previous is x-1"), None => assert!(x == 0, "previous is None only at the minimum") }
    }}

    // ---------------- Block for AsRange ---------------------------------------------------
    //@harness bl_as_range_new K fn=<AsRange_as_Block>::{new,min,max},AsRange::{new,min,max},Clone
    verif_harness!{ bl_as_range_new; |a: u32, b: u32| {
        let r = <AsRange as Block>::new(asn(a), asn(b));
        assert!(val(<AsRange as Block>::min(&r)) == a, "Block::min(new(a,b)) == a");
        assert!(val(<AsRange as Block>::max(&r)) == b, "Block::max(new(a,b)) == b");
        assert!(val(AsRange::min(r)) == a && val(AsRange::max(r)) == b, "inherent min/max");
        assert!(r.bounds() == (asn(a), asn(b)), "bounds");
        let c = r.clone();
        assert!(val(c.min()) == a && val(c.max()) == b, "clone preserves bounds");
        assert!(val(AsRange::all().min()) == 0 && val(AsRange::all().max()) == u32::MAX, "all()");
    }}
    //@harness bl_as_range_next_prev K fn=<AsRange_as_Block>::{next,previous}
    verif_harness!{ bl_as_range_next_prev; |x: u32| {
        let n = <AsRange as Block>::next(asn(x));
        let p = <AsRange as Block>::previous(asn(x));
        match n { Some(n) => assert!(x < u32::MAX && val(n) == x + 1, "next is x+1"), None => assert!(x == u32::MAX, "next is None only at the maximum") }
        match p { Some(p) => assert!(x > 0 && val(p) == x - 1, "previous is x-1"), None => assert!(x == 0, "previous is None only at the minimum") }
    }}

    // ---------------- the Block default methods as compiled for AsBlock / AsRange -----------
    // (the Verus unit chain_query proves the trait's DEFAULT bodies; an implementor may override them - these
    // harnesses pin what the compiled methods of the two implementors compute, for all pairs of blocks)
    //@harness bl_as_block_defaults K fn=<AsBlock_as_Block>::{contains,intersects,is_encompassed,is_equivalent,bounds,sum}
    verif_harness!{ bl_as_block_defaults; |a: u32, b: u32, c: u32, d: u32, x: u32| {
        let s = AsBlock::from((asn(a), asn(b)));
        let o = AsBlock::from((asn(c), asn(d)));
        assert!(<AsBlock as Block>::contains(&s, asn(x)) == (a <= x && x <= b), "contains(x) == lo <= x <= hi");
        assert!(<AsBlock as Block>::intersects(&s, &o) == (a <= d && b >= c), "intersects == the intervals meet");
        assert!(<AsBlock as Block>::is_encompassed(&s, &o) == (c <= a && d >= b), "is_encompassed == interval inclusion");
        assert!(<AsBlock as Block>::is_equivalent(&s, &o) == (a == c && b == d), "is_equivalent == same bounds");
        assert!(<AsBlock as Block>::bounds(&s) == (asn(a), asn(b)), "bounds");
        assume(a <= b && c <= d);
        match <AsBlock as Block>::sum(&s, &o) {
            Some(u) => {
                let touch = (a <= d && b >= c) || (b < u32::MAX && b + 1 == c) || (d < u32::MAX && d + 1 == a);
                assert!(touch, "sum is Some only for overlapping or adjacent blocks");
                assert!(val(u.min()) == a.min(c) && val(u.max()) == b.max(d), "sum spans both");
            }
            None => assert!(!((a <= d && b >= c) || (b < u32::MAX && b + 1 == c) || (d < u32::MAX && d + 1 == a)), "sum is None only for separated blocks"),
        }
    }}
    //@harness bl_as_range_defaults K fn=<AsRange_as_Block>::{contains,intersects,is_encompassed,is_equivalent,bounds,sum}
    verif_harness!{ bl_as_range_defaults; |a: u32, b: u32, c: u32, d: u32, x: u32| {
        let s = AsRange::new(asn(a), asn(b));
        let o = AsRange::new(asn(c), asn(d));
        assert!(<AsRange as Block>::contains(&s, asn(x)) == (a <= x && x <= b), "contains(x) == lo <= x <= hi");
        assert!(<AsRange as Block>::intersects(&s, &o) == (a <= d && b >= c), "intersects == the intervals meet");
        assert!(<AsRange as Block>::is_encompassed(&s, &o) == (c <= a && d >= b), "is_encompassed == interval inclusion");
        assert!(<AsRange as Block>::is_equivalent(&s, &o) == (a == c && b == d), "is_equivalent == same bounds");
        assert!(<AsRange as Block>::bounds(&s) == (asn(a), asn(b)), "bounds");
        assume(a <= b && c <= d);
        match <AsRange as Block>::sum(&s, &o) {
            Some(u) => {
                let touch = (a <= d && b >= c) || (b < u32::MAX && b + 1 == c) || (d < u32::MAX && d + 1 == a);
                assert!(touch, "sum is Some only for overlapping or adjacent blocks");
                assert!(val(u.min()) == a.min(c) && val(u.max()) == b.max(d), "sum spans both");
            }
            None => assert!(!((a <= d && b >= c) || (b < u32::MAX && b + 1 == c) || (d < u32::MAX && d + 1 == a)), "sum is None only for separated blocks"),
        }
    }}

    // ---------------- item counts ---------------------------------------------------------
    /// |[a,b]| as a mathematical integer
    fn card(a: u32, b: u32) -> u64 { if a <= b { (b as u64) - (a as u64) + 1 } else { 0 } }

    //@harness bl_asn_count_representable K fn=AsRange::asn_count,AsBlock::asn_count
    verif_harness!{ bl_asn_count_representable; |a: u32, b: u32| {
        // every well-formed block whose size fits the return type
        assume(a <= b && card(a, b) <= u32::MAX as u64);
        assert!(AsRange::new(asn(a), asn(b)).asn_count() as u64 == card(a, b), "AsRange::asn_count == max - min + 1");
        assert!(<AsBlock as Block>::new(asn(a), asn(b)).asn_count() as u64 == card(a, b), "AsBlock::asn_count == max - min + 1");
        assert!(AsBlock::Range(AsRange::new(asn(a), asn(b))).asn_count() as u64 == card(a, b), "AsBlock::Range count");
        assert!(AsBlock::Id(asn(a)).asn_count() == 1, "AsBlock::Id counts one");
    }}
    // FINDING (C03, item counts): fails for a = 0, b = 4294967295 — `max - min + 1` overflows u32
    // (panic with overflow checks, 0 without).  `AsBlock::all()`, `AsBlocks::all()` and the DER
    // decoder (see bl_as_der_count) produce exactly this block.
    //@harness bl_asn_count_total K fn=AsRange::asn_count,AsBlock::asn_count
    verif_harness!{ bl_asn_count_total; |a: u32, b: u32| {
        assume(a <= b);
        let n = AsBlock::Range(AsRange::new(asn(a), asn(b))).asn_count();
        // no panic for any well-formed block; exact where representable, never an under-count otherwise
        assert!(n as u64 == card(a, b) || (card(a, b) > u32::MAX as u64 && n == u32::MAX), "count exact, or saturated when 2^32 is not representable");
    }}

    // ---------------- lo <= hi at the decoding boundary ------------------------------------
    // ASIdOrRange ::= CHOICE { id INTEGER, range SEQUENCE { min INTEGER, max INTEGER } }
    fn decode_block(buf: &[u8]) -> Option<AsBlock> {
        match bcder::Mode::Der.decode(buf, |cons| AsBlock::take_opt_from(cons)) { Ok(Some(b)) => Some(b), _ => None }
    }
    // FINDING (C03, lower bound not above upper bound): SEQUENCE { 20, b } with b < 20 is accepted as the
    // block AS20-ASb: AsRange::parse_content does not check min <= max.  (Bounded in the input only: the
    // first INTEGER is fixed — with both integers symbolic CBMC needs > 30 GB for the two nested bcder reads.)
    //@harness bl_as_der_lo_le_hi Kb fn=AsRange::parse_content,AsBlock::take_opt_from bound="first INTEGER fixed to 20, second any one-octet INTEGER"
    verif_harness!{ #[kani::unwind(6)] bl_as_der_lo_le_hi; |b: u8| {
        let buf = [0x30u8, 6, 2, 1, 20, 2, 1, b];
        if let Some(blk) = decode_block(&buf[..]) {
            assert!(b < 0x80, "one-octet INTEGERs are non-negative");
            assert!(val(blk.min()) == 20 && val(blk.max()) == b as u32, "decoded bounds are the encoded numbers");
            assert!(blk.min() <= blk.max(), "a decoded AS range has min <= max");
        }
    }}
    // FINDING (same defect as bl_asn_count_total, reached from DER): SEQUENCE { 0, 4294967295 } decodes to a
    // well-formed block whose asn_count() overflows.
    //@harness bl_as_der_count Kb fn=AsRange::parse_content,AsBlock::asn_count bound="first INTEGER fixed to 0, second any five-octet INTEGER"
    verif_harness!{ #[kani::unwind(8)] bl_as_der_count; |b: [u8; 4]| {
        let buf = [0x30u8, 10, 2, 1, 0, 2, 5, 0, b[0], b[1], b[2], b[3]];
        if let Some(blk) = decode_block(&buf[..]) {
            let hi = u32::from_be_bytes(b);
            assert!(val(blk.min()) == 0 && val(blk.max()) == hi, "decoded bounds (here always min <= max)");
            let n = blk.asn_count();
            assert!(n as u64 == card(0, hi) || (card(0, hi) > u32::MAX as u64 && n == u32::MAX), "count of a decoded block");
        }
    }}
    // (was a FINDING, repaired by /repo commit 07d3485: "3-1" used to parse to the block AS3-AS1)
    //@harness bl_as_text_lo_le_hi Kb fn=AsBlock::from_str bound="strings d-d with one decimal digit on each side" timeout=2400 thorough
    verif_harness!{ #[kani::unwind(6)] bl_as_text_lo_le_hi; |a: u8, b: u8| {
        assume(a >= b'0' && a <= b'9' && b >= b'0' && b <= b'9');
        let buf = [a, b'-', b];
        let s = core::str::from_utf8(&buf[..]).unwrap();
        let r = AsBlock::from_str(s);
        assert!(r.is_ok() == (a <= b), "digit-digit parses exactly when the range is not inverted");
        if let Ok(blk) = r {
            assert!(val(blk.min()) == (a - b'0') as u32 && val(blk.max()) == (b - b'0') as u32, "parsed bounds");
            assert!(blk.min() <= blk.max(), "a parsed AS range has min <= max");
        }
    }}
}
//@end

//@append src/repository/resources/ipres.rs
#[cfg(any(kani, verif_replay))]
#[allow(dead_code, unused)]
mod verif_block_leaves_ip {
    use super::*;
    use crate::verif_support::{assume, reach};

    fn ad(x: u128) -> Addr { Addr::from_bits(x) }
    /// the order embedding `val` of chain_env for Item = Addr
    fn val(x: Addr) -> u128 { x.to_bits() }
    /// all-ones in the host part of a prefix of length `len`
    fn hostmask(len: u8) -> u128 { if len >= 128 { 0 } else { u128::MAX >> (len as u32) } }
    /// [a,b] is exactly the address range of the prefix a/len
    fn is_range_of_len(a: u128, b: u128, len: u8) -> bool { a & hostmask(len) == 0 && b == a | hostmask(len) }
    /// the prefix length whose address range is [a,b], if any (129 candidates, fixed-width loop)
    fn prefix_len_of(a: u128, b: u128) -> Option<u8> {
        let mut found = None;
        let mut len: u16 = 0;
        while len <= 128 {
            if is_range_of_len(a, b, len as u8) {
                assert!(found.is_none(), "at most one prefix length fits a range");
                found = Some(len as u8);
            }
            len += 1;
        }
        found
    }
    /// type invariant of ipres::Prefix
    fn wf(p: &Prefix) -> bool { p.len <= 128 && p.addr.0 & hostmask(p.len) == 0 }

    // ---------------- ord_law for Item = Addr --------------------------------------------
    //@harness bl_addr_ord_law K fn=derive(Ord,PartialOrd,Eq,PartialEq)(Addr)
    verif_harness!{ bl_addr_ord_law; |a: u128, b: u128, sa: bool, sb: bool| {
        let (x, y) = (ad(a), ad(b));
        assert!(val(x) == a && val(y) == b, "val inverts from_bits (val is injective)");
        assert!(u128::from(x) == a && Addr::from(a) == x, "From conversions are the same embedding");
        assert!((x == y) == (a == b), "eq_spec(a,b) == (val(a) == val(b))");
        assert!((x != y) == (a != b), "ne agrees");
        assert!(x.partial_cmp(&y) == Some(a.cmp(&b)), "partial_cmp_spec == Some(int_cmp)");
        assert!(x.cmp(&y) == a.cmp(&b), "cmp_spec == int_cmp");
        assert!((x < y) == (a < b) && (x <= y) == (a <= b) && (x > y) == (a > b) && (x >= y) == (a >= b), "operators agree");
        assert!(cmp::min(x, y) == ad(if a <= b { a } else { b }), "cmp::min");
        assert!(cmp::max(x, y) == ad(if a >= b { a } else { b }), "cmp::max");
        let (ox, oy) = (if sa { Some(x) } else { None }, if sb { Some(y) } else { None });
        assert!((ox == oy) == (sa == sb && (!sa || a == b)), "Option<Addr> equality is structural");
    }}

    // ---------------- Addr::to_min / to_max, Prefix --------------------------------------
    //@harness bl_addr_to_min_max K fn=Addr::to_min,Addr::to_max
    verif_harness!{ bl_addr_to_min_max; |a: u128, len: u8| {
        let (lo, hi) = (ad(a).to_min(len), ad(a).to_max(len));
        assert!(val(lo) == a & !hostmask(len), "to_min clears the host bits");
        assert!(val(hi) == a | hostmask(len), "to_max sets the host bits");
        assert!(val(lo) <= a && a <= val(hi), "a lies in its own prefix");
        if len <= 128 { assert!(val(hi) - val(lo) == hostmask(len), "the prefix holds 2^(128-len) addresses"); }
    }}
    //@harness bl_prefix_new K fn=ipres::Prefix::{new,min,max,range,addr,addr_len}
    verif_harness!{ bl_prefix_new; |a: u128, len: u8| {
        assume(len <= 128);     // documented: new panics for len > 128
        let p = Prefix::new(ad(a), len);
        assert!(wf(&p), "Prefix::new is well-formed (host bits zero)");
        assert!(p.addr_len() == len && val(p.addr()) == a & !hostmask(len), "addr / addr_len");
        assert!(val(p.min()) == a & !hostmask(len), "min is the network address");
        assert!(val(p.max()) == a | hostmask(len), "max is the broadcast address");
        assert!(p.range() == (p.min(), p.max()) && p.min() <= p.max(), "range == (min,max), min <= max");
        assert!(prefix_len_is(val(p.min()), val(p.max()), len), "the range of a prefix is a prefix range of its length");
        let q = Prefix::new(a, len);
        assert!(q == p, "new from raw bits is the same");
        // conversions keep the bounds
        let r = AddressRange::from(p);
        assert!(r.min() == p.min() && r.max() == p.max(), "From<Prefix> for AddressRange keeps bounds");
        let b = IpBlock::from(p);
        assert!(matches!(b, IpBlock::Prefix(_)) && b.min() == p.min() && b.max() == p.max(), "From<Prefix> for IpBlock keeps bounds");
        assert!(b.is_slash_zero() == (len == 0), "is_slash_zero");
        assert!(val(Prefix::all().min()) == 0 && val(Prefix::all().max()) == u128::MAX && Prefix::all().addr_len() == 0, "all()");
    }}
    fn prefix_len_is(a: u128, b: u128, len: u8) -> bool { is_range_of_len(a, b, len) }

    // ---------------- canonical form: prefixes are expressed as prefixes, and only those ---
    //@harness bl_into_prefix K fn=AddressRange::into_prefix
    verif_harness!{ #[kani::unwind(131)] bl_into_prefix; |a: u128, b: u128| {
        let spec = prefix_len_of(a, b);
        match AddressRange::new(ad(a), ad(b)).into_prefix() {
            Ok(p) => {
                assert!(wf(&p), "result is a well-formed prefix");
                assert!(val(p.min()) == a && val(p.max()) == b, "the prefix keeps both bounds exactly");
                assert!(spec == Some(p.addr_len()), "Ok only for a prefix range, with its length");
            }
            Err(r) => {
                assert!(val(r.min()) == a && val(r.max()) == b, "the range is handed back unchanged");
                assert!(spec.is_none(), "Err only if no prefix length fits");
            }
        }
        if a > b { assert!(spec.is_none(), "an inverted range is never a prefix"); }
    }}
    //@harness bl_ip_block_new K fn=<IpBlock_as_Block>::{new,min,max},From<(Addr,Addr)>,IpBlock::{min,max},Clone
    verif_harness!{ #[kani::unwind(131)] bl_ip_block_new; |a: u128, b: u128| {
        let r = <IpBlock as Block>::new(ad(a), ad(b));
        assert!(val(<IpBlock as Block>::min(&r)) == a, "Block::min(new(a,b)) == a");
        assert!(val(<IpBlock as Block>::max(&r)) == b, "Block::max(new(a,b)) == b");
        assert!(val(IpBlock::min(&r)) == a && val(IpBlock::max(&r)) == b, "inherent min/max");
        assert!(r.bounds() == (ad(a), ad(b)), "bounds");
        let spec = prefix_len_of(a, b);
        match r {
            IpBlock::Prefix(p) => assert!(wf(&p) && spec == Some(p.addr_len()), "Prefix variant only for a prefix range"),
            IpBlock::Range(_) => assert!(spec.is_none(), "Range variant only if no prefix length fits"),
        }
        let f = IpBlock::from((ad(a), ad(b)));
        assert!(matches!(f, IpBlock::Prefix(_)) == matches!(r, IpBlock::Prefix(_)) && f.min() == r.min() && f.max() == r.max(), "From<(Addr,Addr)> is new");
        let c = r.clone();
        assert!(val(c.min()) == a && val(c.max()) == b && matches!(c, IpBlock::Prefix(_)) == matches!(r, IpBlock::Prefix(_)), "clone preserves bounds and variant");
    }}
    //@harness bl_ip_block_variants K fn=IpBlock::{min,max},From<AddressRange>,PartialEq
    verif_harness!{ bl_ip_block_variants; |a: u128, b: u128, c: u128, len: u8| {
        assume(len <= 128);
        let rg = IpBlock::from(AddressRange::new(ad(a), ad(b)));
        assert!(matches!(rg, IpBlock::Range(_)) && val(rg.min()) == a && val(rg.max()) == b, "Range keeps bounds");
        let p = Prefix::new(ad(c), len);
        let pb = IpBlock::Prefix(p);
        assert!(pb.min() == p.min() && pb.max() == p.max(), "Prefix variant bounds");
        // equality of blocks is equality of the denoted interval, whatever the variant
        assert!((rg == pb) == (ad(a) == p.min() && ad(b) == p.max()), "IpBlock == is equality of bounds");
        assert!(IpBlock::all().is_slash_zero() && val(IpBlock::all().min()) == 0 && val(IpBlock::all().max()) == u128::MAX, "all()");
    }}
    //@harness bl_ip_block_next_prev K fn=<IpBlock_as_Block>::{next,previous}
    verif_harness!{ bl_ip_block_next_prev; |x: u128| {
        let n = <IpBlock as Block>::next(ad(x));
        let p = <IpBlock as Block>::previous(ad(x));
        match n { Some(n) => assert!(x < u128::MAX && val(n) == x + 1, "next is x+1"), None => assert!(x == u128::MAX, "next is None only at the maximum") }
        match p { Some(p) => assert!(x > 0 && val(p) == x - 1, "previous is x-1"), None => assert!(x == 0, "previous is None only at the minimum") }
    }}

    // ---------------- Block for AddressRange ----------------------------------------------
    //@harness bl_addr_range_new K fn=<AddressRange_as_Block>::{new,min,max},AddressRange::{new,min,max},From<(Addr,Addr)>,Clone
    verif_harness!{ bl_addr_range_new; |a: u128, b: u128| {
        let r = <AddressRange as Block>::new(ad(a), ad(b));
        assert!(val(<AddressRange as Block>::min(&r)) == a, "Block::min(new(a,b)) == a");
        assert!(val(<AddressRange as Block>::max(&r)) == b, "Block::max(new(a,b)) == b");
        assert!(val(AddressRange::min(&r)) == a && val(AddressRange::max(&r)) == b, "inherent min/max");
        assert!(r.bounds() == (ad(a), ad(b)), "bounds");
        assert!(AddressRange::from((ad(a), ad(b))) == r && AddressRange::new(ad(a), ad(b)) == r, "From<(Addr,Addr)> / new");
        let c = r.clone();
        assert!(val(c.min()) == a && val(c.max()) == b, "clone preserves bounds");
    }}
    //@harness bl_addr_range_next_prev K fn=<AddressRange_as_Block>::{next,previous}
    verif_harness!{ bl_addr_range_next_prev; |x: u128| {
        let n = <AddressRange as Block>::next(ad(x));
        let p = <AddressRange as Block>::previous(ad(x));
        match n { Some(n) => assert!(x < u128::MAX && val(n) == x + 1, "next is x+1"), None => assert!(x == u128::MAX, "next is None only at the maximum") }
        match p { Some(p) => assert!(x > 0 && val(p) == x - 1, "previous is x-1"), None => assert!(x == 0, "previous is None only at the minimum") }
    }}

    // ---------------- the Block default methods as compiled for IpBlock / AddressRange ------
    //@harness bl_ip_block_defaults K fn=<IpBlock_as_Block>::{contains,intersects,is_encompassed,is_equivalent,bounds}
    verif_harness!{ bl_ip_block_defaults; |a: u128, b: u128, la: u8, pa: bool, c: u128, d: u128, lc: u8, pc: bool, x: u128| {
        // both variants of both operands: a prefix of any length, or a range with any bounds
        assume(la <= 128 && lc <= 128);
        let s = if pa { IpBlock::Prefix(Prefix::new(ad(a), la)) } else { IpBlock::Range(AddressRange::new(ad(a), ad(b))) };
        let o = if pc { IpBlock::Prefix(Prefix::new(ad(c), lc)) } else { IpBlock::Range(AddressRange::new(ad(c), ad(d))) };
        let (slo, shi, olo, ohi) = (val(s.min()), val(s.max()), val(o.min()), val(o.max()));
        assert!(<IpBlock as Block>::contains(&s, ad(x)) == (slo <= x && x <= shi), "contains(x) == lo <= x <= hi");
        assert!(<IpBlock as Block>::intersects(&s, &o) == (slo <= ohi && shi >= olo), "intersects == the intervals meet");
        assert!(<IpBlock as Block>::is_encompassed(&s, &o) == (olo <= slo && ohi >= shi), "is_encompassed == interval inclusion");
        assert!(<IpBlock as Block>::is_equivalent(&s, &o) == (slo == olo && shi == ohi), "is_equivalent == same bounds");
        assert!(<IpBlock as Block>::bounds(&s) == (s.min(), s.max()), "bounds");
    }}
    //@harness bl_addr_range_defaults K fn=<AddressRange_as_Block>::{contains,intersects,is_encompassed,is_equivalent,bounds,sum}
    verif_harness!{ bl_addr_range_defaults; |a: u128, b: u128, c: u128, d: u128, x: u128| {
        let s = AddressRange::new(ad(a), ad(b));
        let o = AddressRange::new(ad(c), ad(d));
        assert!(<AddressRange as Block>::contains(&s, ad(x)) == (a <= x && x <= b), "contains(x) == lo <= x <= hi");
        assert!(<AddressRange as Block>::intersects(&s, &o) == (a <= d && b >= c), "intersects == the intervals meet");
        assert!(<AddressRange as Block>::is_encompassed(&s, &o) == (c <= a && d >= b), "is_encompassed == interval inclusion");
        assert!(<AddressRange as Block>::is_equivalent(&s, &o) == (a == c && b == d), "is_equivalent == same bounds");
        assert!(<AddressRange as Block>::bounds(&s) == (ad(a), ad(b)), "bounds");
        assume(a <= b && c <= d);
        match <AddressRange as Block>::sum(&s, &o) {
            Some(u) => {
                let touch = (a <= d && b >= c) || (b < u128::MAX && b + 1 == c) || (d < u128::MAX && d + 1 == a);
                assert!(touch, "sum is Some only for overlapping or adjacent blocks");
                assert!(val(u.min()) == a.min(c) && val(u.max()) == b.max(d), "sum spans both");
            }
            None => assert!(!((a <= d && b >= c) || (b < u128::MAX && b + 1 == c) || (d < u128::MAX && d + 1 == a)), "sum is None only for separated blocks"),
        }
    }}

    // ---------------- lo <= hi at the decoding boundary ------------------------------------
    // IPAddressOrRange ::= CHOICE { addressPrefix BIT STRING, addressRange SEQUENCE { min BIT STRING, max BIT STRING } }
    // (The harnesses call AddressRange::parse_content* on the SEQUENCE content directly: every use of the type
    // Result<Option<IpBlock>, DecodeError<_>> returned by IpBlock::take_opt_from* crashes kani-compiler 0.68
    // in codegen_get_discriminant.)
    // FINDING (C03, lower bound not above upper bound): SEQUENCE { 1/8, 0/8 } is accepted as the range
    // 1.0.0.0 - 0.255.255.255: AddressRange::parse_content[_with_family] do not check min <= max.
    //@harness bl_ip_der_lo_le_hi Kb fn=AddressRange::parse_content bound="both BIT STRINGs one octet without unused bits (/8 prefixes), octet values unrestricted" timeout=2400 thorough
    verif_harness!{ #[kani::unwind(18)] bl_ip_der_lo_le_hi; |a: u8, b: u8| {
        let buf = [0x30u8, 8, 3, 2, 0, a, 3, 2, 0, b];
        let r = bcder::Mode::Der.decode(&buf[..], |cons| cons.take_value_if(Tag::SEQUENCE, AddressRange::parse_content));
        if let Ok(blk) = r {
            assert!(val(blk.min()) == (a as u128) << 120, "decoded lower bound");
            assert!(val(blk.max()) == ((b as u128) << 120) | hostmask(8), "decoded upper bound");
            assert!(blk.min() <= blk.max(), "a decoded address range has min <= max");
        }
    }}
    // FINDING: same defect in the family-checking variant.
    //@harness bl_ip_der_family_lo_le_hi Kb fn=AddressRange::parse_content_with_family bound="both BIT STRINGs one octet without unused bits (/8 prefixes), octet values and family unrestricted" timeout=2400 thorough
    verif_harness!{ #[kani::unwind(18)] bl_ip_der_family_lo_le_hi; |a: u8, b: u8, v4: bool| {
        let buf = [0x30u8, 8, 3, 2, 0, a, 3, 2, 0, b];
        let fam = if v4 { AddressFamily::Ipv4 } else { AddressFamily::Ipv6 };
        let r = bcder::Mode::Der.decode(&buf[..], |cons| cons.take_value_if(Tag::SEQUENCE, |c| AddressRange::parse_content_with_family(c, fam)));
        if let Ok(blk) = r {
            assert!(val(blk.min()) == (a as u128) << 120, "decoded lower bound");
            assert!(val(blk.max()) == ((b as u128) << 120) | hostmask(8), "decoded upper bound");
            assert!(blk.min() <= blk.max(), "a decoded address range has min <= max");
        }
    }}

    //@harness bl_ip_der_family_bits Kb fn=AddressRange::parse_content_with_family bound="first BIT STRING a /8, second a /8 or a /4 (4 unused bits), octet values and family unrestricted" timeout=2400 thorough
    verif_harness!{ #[kani::unwind(18)] bl_ip_der_family_bits; |a: u8, b: u8, short_max: bool, v4: bool| {
        // decoding is exact: accepted exactly when the expanded range is not inverted, with the expanded bounds
        // (fully symbolic unused-bit counts exhaust CBMC's memory: the first prefix is a /8, the second a /8 or a /4)
        let ua: u8 = 0; let ub: u8 = if short_max { 4 } else { 0 };
        assume(a & ((1u8 << ua) - 1) == 0 && b & ((1u8 << ub) - 1) == 0);   // DER: unused bits are zero
        let buf = [0x30u8, 8, 3, 2, ua, a, 3, 2, ub, b];
        let fam = if v4 { AddressFamily::Ipv4 } else { AddressFamily::Ipv6 };
        let r = bcder::Mode::Der.decode(&buf[..], |cons| cons.take_value_if(Tag::SEQUENCE, |c| AddressRange::parse_content_with_family(c, fam)));
        let lo = (a as u128) << 120;
        let hi = ((b as u128) << 120) | hostmask(8 - ub);
        assert!(r.is_ok() == (lo <= hi), "a range is accepted exactly when min (zero-filled) <= max (one-filled)");
        if let Ok(blk) = r {
            assert!(val(blk.min()) == lo && val(blk.max()) == hi, "decoded bounds are the zero-filled / one-filled addresses");
        }
    }}

    // Text form (AddressRange::from_str_sep / from_v4_str_sep / from_v6_str_sep): no harness — std's IpAddr::from_str
    // on symbolic octets does not finish in CBMC (timeout in symbolic execution even for "9.0.0.0-d.0.0.0").  The same
    // missing min <= max check is reproduced natively: "10.0.0.9-10.0.0.1" and "2001:db8::9-2001:db8::1" parse to inverted ranges.

    // ---------------- std facts assumed by the Verus unit range_prefixes --------------------
    fn is_tz128(x: u128, r: u32) -> bool {
        r <= 128 && ((x == 0) == (r == 128)) && (r >= 128 || ((x >> r) & 1 == 1 && x & ((1u128 << r) - 1) == 0))
    }
    fn is_lz128(x: u128, r: u32) -> bool {
        r <= 128 && ((x == 0) == (r == 128)) && (r >= 128 || x >> (127 - r) == 1)
    }
    fn is_to128(x: u128, r: u32) -> bool {
        r <= 128 && ((x == u128::MAX) == (r == 128)) && (r >= 128 || ((x >> r) & 1 == 0 && x & ((1u128 << r) - 1) == (1u128 << r) - 1))
    }
    //@harness bl_u128_bit_counts K fn=u128::{trailing_zeros,leading_zeros,trailing_ones}
    verif_harness!{ bl_u128_bit_counts; |x: u128, r: u32| {
        // the characterisations written as assume_specification in range_prefixes.v.rs hold for the compiled intrinsics ...
        assert!(is_tz128(x, x.trailing_zeros()), "trailing_zeros satisfies is_tz128");
        assert!(is_lz128(x, x.leading_zeros()), "leading_zeros satisfies is_lz128");
        assert!(is_to128(x, x.trailing_ones()), "trailing_ones satisfies is_to128");
        // ... and determine the result uniquely (they are not weaker than the functions)
        if is_tz128(x, r) { assert!(r == x.trailing_zeros(), "is_tz128 determines the count"); }
        if is_lz128(x, r) { assert!(r == x.leading_zeros(), "is_lz128 determines the count"); }
        if is_to128(x, r) { assert!(r == x.trailing_ones(), "is_to128 determines the count"); }
    }}
    //@harness bl_v4_addr_embedding K fn=Addr::from_v4,From<Ipv4Addr>,Addr::to_v4
    verif_harness!{ bl_v4_addr_embedding; |x: u32, y: u128| {
        assert!(u32::from(Ipv4Addr::from(x)) == x, "std: Ipv4Addr <-> u32 round trip");
        assert!(val(Addr::from(Ipv4Addr::from(x))) == (x as u128) << 96, "IPv4 addresses live in the upper 32 bits");
        assert!(val(Addr::from_v4(Ipv4Addr::from(x))) == (x as u128) << 96, "from_v4");
        assert!(u32::from(ad(y).to_v4()) == (y >> 96) as u32, "to_v4 reads the upper 32 bits");
    }}

    // ---------------- bounded cross-check of the decomposition on the compiled code ----------
    // (the complete proofs are in the Verus unit range_prefixes; these runs exercise the real
    // `impl Iterator` return value, i.e. what rules R10/R12 abstract from)
    //@harness bl_v4_prefixes_kb_n4 Kb fn=AddressRange::to_v4_prefixes bound="min and max agree above the low 4 bits (at most 6 prefixes)" thorough
    verif_harness!{ #[kani::unwind(9)] bl_v4_prefixes_kb_n4; |a: u32, b: u32| {
        assume(a >> 4 == b >> 4);
        let r = AddressRange::new(Addr::from(Ipv4Addr::from(a)), Addr::from(Ipv4Addr::from(b)).to_max(32));
        let mut it = r.to_v4_prefixes();
        let mut next = a as u64;        // first address not yet covered
        let mut n = 0;
        while n < 7 {
            match it.next() {
                None => break,
                Some(p) => {
                    let (lo, hi) = ((val(p.min()) >> 96) as u64, (val(p.max()) >> 96) as u64);
                    assert!(wf(&p) && p.addr_len() <= 32, "well-formed IPv4 prefix");
                    assert!(lo == next && lo <= hi && hi <= b as u64, "prefixes tile [min,max] in ascending order without gap or overlap");
                    next = hi + 1;
                }
            }
            n += 1;
        }
        assert!(n <= 6 && it.next().is_none(), "at most 2*4-2 prefixes");
        if a <= b { assert!(next == b as u64 + 1, "the union ends at max"); } else { assert!(n == 0, "empty for min > max"); }
    }}
    //@harness bl_v6_prefixes_kb_n4 Kb fn=AddressRange::to_v6_prefixes bound="min and max agree above the low 4 bits (at most 6 prefixes)" timeout=1200 thorough
    verif_harness!{ #[kani::unwind(9)] bl_v6_prefixes_kb_n4; |a: u128, b: u128| {
        assume(a >> 4 == b >> 4);
        let r = AddressRange::new(ad(a), ad(b));
        let mut it = r.to_v6_prefixes();
        let mut next = a;               // first address not yet covered
        let mut done = false;           // the last prefix ended at u128::MAX
        let mut n = 0;
        while n < 7 {
            match it.next() {
                None => break,
                Some(p) => {
                    let (lo, hi) = (val(p.min()), val(p.max()));
                    assert!(wf(&p), "well-formed prefix");
                    assert!(!done && lo == next && lo <= hi && hi <= b, "prefixes tile [min,max] in ascending order without gap or overlap");
                    if hi == u128::MAX { done = true; } else { next = hi + 1; }
                }
            }
            n += 1;
        }
        assert!(n <= 6 && it.next().is_none(), "at most 2*4-2 prefixes");
        if a <= b { assert!(if b == u128::MAX { done } else { !done && next == b + 1 }, "the union ends at max"); } else { assert!(n == 0, "empty for min > max"); }
    }}
}
//@end
