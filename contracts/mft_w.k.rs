// Unit mft_w (C14): WITNESS SEARCH ONLY (kind W) - proves nothing, never counted.
// The deductive units mft_name / mft_hash decide the file-name predicate and the hash comparison on extracted
// text; a restructured body makes them come back undecided, and no contract decides the decoder as a whole.
// This unit is the anchor-free last line: the COMPILED code runs natively on
//  * short file names over a tricky alphabet (range ends of [A-Za-z0-9_-], the octets adjacent to those ranges,
//    dots, slashes, controls, non-ASCII), mostly valid names with ONE defect;
//  * manifests built with the library's own builder/encoder from such names, hashes of any length and update
//    times around each other, then decoded through ManifestContent::take_from and through Manifest::decode
//    (the repository's manifest fixture with its eContent replaced - decoding does not verify the signature);
//  * listed hashes that are the SHA-256 of the data shortened / extended / flipped / of related data,
// and is compared with the clauses of C14 written down independently (a reference RFC 9286 predicate, plain
// second counts for the times, byte-level URI expectations, an own SHA-256).  A hit is a concrete input,
// replayed and reported; the derived names / hashes / times are part of the failure text.
//@features ca,rtr,slurm

//@append src/repository/sigobj.rs
#[cfg(any(kani, verif_replay))]
#[allow(dead_code, unused)]
pub(crate) mod verif_mft_w_wrap {
    use super::*;
    use bcder::encode::Values;

    /// the repository's manifest fixture with its content octets replaced, encoded again (the fixture is BER, so BER mode)
    pub fn wrap(content: Bytes) -> Bytes {
        let mut obj = SignedObject::decode(include_bytes!("../../test-data/repository/ta.mft").as_ref(), false).unwrap();
        obj.content = OctetString::new(content);
        obj.encode_ref().to_captured(Mode::Ber).into_bytes()
    }
}
//@end

//@append src/repository/manifest.rs
#[cfg(any(kani, verif_replay))]
#[allow(dead_code, unused)]
mod verif_mft_w {
    use super::*;
    use crate::verif_support::{assume, reach};
    use crate::repository::sigobj::verif_mft_w_wrap::wrap;
    use std::panic::{catch_unwind, AssertUnwindSafe};

    /// splitmix64 finalizer: spreads the (boundary-biased) raw inputs over the shapes below; deterministic
    fn mix(x: u64) -> u64 {
        let mut z = x.wrapping_add(0x9E3779B97F4A7C15);
        z = (z ^ (z >> 30)).wrapping_mul(0xBF58476D1CE4E5B9);
        z = (z ^ (z >> 27)).wrapping_mul(0x94D049BB133111EB);
        z ^ (z >> 31)
    }
    fn sub(r: u64, k: u64) -> u64 { mix(r ^ k.wrapping_mul(0xD1B54A32D192ED03)) }
    fn pick(set: &[u8], r: u64, k: u64) -> u8 { set[(sub(r, k) % set.len() as u64) as usize] }
    fn blob(r: u64, len: usize) -> Vec<u8> { (0..len).map(|i| sub(r, 1000 + i as u64) as u8).collect() }

    /// C14 / RFC 9286 4.2.2, written from the property text: one or more of [A-Za-z0-9_-], a dot, exactly
    /// three ASCII letters
    fn rfc9286(s: &[u8]) -> bool {
        let stem = |c: u8| matches!(c, b'a'..=b'z' | b'A'..=b'Z' | b'0'..=b'9' | b'-' | b'_');
        let letter = |c: u8| matches!(c, b'a'..=b'z' | b'A'..=b'Z');
        s.len() >= 5 && s[..s.len() - 4].iter().all(|c| stem(*c)) && s[s.len() - 4] == b'.' && s[s.len() - 3..].iter().all(|c| letter(*c))
    }

    const STEM: &[u8] = b"abzAMZ019-_";                 // permitted stem octets, both ends of every range
    const EXT: &[u8] = b"acermftzAZRO";
    // dots and slashes, the octets adjacent to the permitted ranges (, / : @ [ ^ ` {), URI-illegal and
    // control / non-ASCII octets
    const TRICKY: &[u8] = b"../.\\/@[`{^]:,+~%?# \x00\r\n\x7f\x80\xff";

    /// a file name: a valid one, or a valid one with a single defect, or (rarely) free-form
    fn gen_name(r: u64) -> Vec<u8> {
        let stem_len = 1 + (sub(r, 1) % 5) as usize;
        let mut v: Vec<u8> = (0..stem_len).map(|i| pick(STEM, r, 10 + i as u64)).collect();
        v.push(b'.');
        for i in 0..3 { v.push(pick(EXT, r, 20 + i)) }
        let pos = (sub(r, 2) % v.len() as u64) as usize;
        match sub(r, 3) % 20 {
            0..=10 => {}                                                            // valid
            11 | 12 => v[pos] = pick(TRICKY, r, 30),                                // one octet replaced
            13 | 14 => v.insert(pos, pick(TRICKY, r, 31)),                          // one octet inserted (second dot, slash ...)
            15 => { v.remove(pos); }                                                // one octet dropped (no dot, short extension ...)
            16 => v.push(pick(EXT, r, 32)),                                         // four-letter extension
            17 => { let n = v.len(); v[n - 1 - pos % 3] = pick(b"0189-_", r, 33); } // non-letter in the extension
            18 => { v.drain(..stem_len); }                                          // empty stem
            _ => {
                let all: Vec<u8> = [STEM, EXT, TRICKY, b"...."].concat();
                v = (0..sub(r, 4) % 10).map(|i| pick(&all, r, 40 + i)).collect();
            }
        }
        v
    }
    fn show(v: &[u8]) -> String { String::from_utf8_lossy(v).escape_default().to_string() }
    fn hex(v: &[u8]) -> String { v.iter().map(|b| format!("{:02x}", b)).collect() }

    //@harness mft_w_name W fn=FileAndHash::validate_file_name n=100000 timeout=600
    verif_search!{ mft_w_name; |a: u64, b: u64| {
        let name = gen_name(mix(a) ^ mix(b).rotate_left(21));
        let got = FileAndHash::<Bytes, Bytes>::validate_file_name(&name).is_ok();
        // file-name clause: accepted exactly when the name is a single RFC 9286 segment
        assert!(got == rfc9286(&name), "validate_file_name accepts exactly the RFC 9286 names: name={} accepted={}", show(&name), got);
    }}

    /// SHA-256 (FIPS 180-4), own implementation: the oracle for "equals the SHA-256 of the data"
    fn sha256(data: &[u8]) -> Vec<u8> {
        const K: [u32; 64] = [
            0x428a2f98, 0x71374491, 0xb5c0fbcf, 0xe9b5dba5, 0x3956c25b, 0x59f111f1, 0x923f82a4, 0xab1c5ed5,
            0xd807aa98, 0x12835b01, 0x243185be, 0x550c7dc3, 0x72be5d74, 0x80deb1fe, 0x9bdc06a7, 0xc19bf174,
            0xe49b69c1, 0xefbe4786, 0x0fc19dc6, 0x240ca1cc, 0x2de92c6f, 0x4a7484aa, 0x5cb0a9dc, 0x76f988da,
            0x983e5152, 0xa831c66d, 0xb00327c8, 0xbf597fc7, 0xc6e00bf3, 0xd5a79147, 0x06ca6351, 0x14292967,
            0x27b70a85, 0x2e1b2138, 0x4d2c6dfc, 0x53380d13, 0x650a7354, 0x766a0abb, 0x81c2c92e, 0x92722c85,
            0xa2bfe8a1, 0xa81a664b, 0xc24b8b70, 0xc76c51a3, 0xd192e819, 0xd6990624, 0xf40e3585, 0x106aa070,
            0x19a4c116, 0x1e376c08, 0x2748774c, 0x34b0bcb5, 0x391c0cb3, 0x4ed8aa4a, 0x5b9cca4f, 0x682e6ff3,
            0x748f82ee, 0x78a5636f, 0x84c87814, 0x8cc70208, 0x90befffa, 0xa4506ceb, 0xbef9a3f7, 0xc67178f2,
        ];
        let mut h: [u32; 8] = [0x6a09e667, 0xbb67ae85, 0x3c6ef372, 0xa54ff53a, 0x510e527f, 0x9b05688c, 0x1f83d9ab, 0x5be0cd19];
        let mut m = data.to_vec();
        m.push(0x80);
        while m.len() % 64 != 56 { m.push(0) }
        m.extend_from_slice(&((data.len() as u64) * 8).to_be_bytes());
        for blk in m.chunks(64) {
            let mut w = [0u32; 64];
            for i in 0..16 { w[i] = u32::from_be_bytes([blk[4 * i], blk[4 * i + 1], blk[4 * i + 2], blk[4 * i + 3]]) }
            for i in 16..64 {
                let s0 = w[i - 15].rotate_right(7) ^ w[i - 15].rotate_right(18) ^ (w[i - 15] >> 3);
                let s1 = w[i - 2].rotate_right(17) ^ w[i - 2].rotate_right(19) ^ (w[i - 2] >> 10);
                w[i] = w[i - 16].wrapping_add(s0).wrapping_add(w[i - 7]).wrapping_add(s1);
            }
            let mut v = h;
            for i in 0..64 {
                let s1 = v[4].rotate_right(6) ^ v[4].rotate_right(11) ^ v[4].rotate_right(25);
                let ch = (v[4] & v[5]) ^ (!v[4] & v[6]);
                let t1 = v[7].wrapping_add(s1).wrapping_add(ch).wrapping_add(K[i]).wrapping_add(w[i]);
                let s0 = v[0].rotate_right(2) ^ v[0].rotate_right(13) ^ v[0].rotate_right(22);
                let maj = (v[0] & v[1]) ^ (v[0] & v[2]) ^ (v[1] & v[2]);
                let t2 = s0.wrapping_add(maj);
                v = [t1.wrapping_add(t2), v[0], v[1], v[2], v[3].wrapping_add(t1), v[4], v[5], v[6]];
            }
            for i in 0..8 { h[i] = h[i].wrapping_add(v[i]) }
        }
        h.iter().flat_map(|x| x.to_be_bytes()).collect()
    }

    /// a listed hash for `data`: the digest, or the digest with one kind of damage
    fn gen_hash(data: &[u8], mode: u8, k: u8, idx: u8, bit: u8, r: u64) -> Vec<u8> {
        let mut v = sha256(data);
        match mode % 10 {
            0 | 1 => {}                                                                     // the digest
            2 => v.truncate((k as usize) % 33),                                             // a prefix (empty .. whole)
            3 => v.extend(blob(r, 1 + (k as usize) % 4)),                                   // extended
            4 => v[(idx as usize) % 32] ^= 1 << (bit % 8),                                  // one bit flipped anywhere
            5 => { v.truncate((k as usize) % 33); v.extend(blob(r, (idx as usize) % 5)); }  // prefix + other octets
            6 => { let keep = (k as usize) % 32; let t = blob(r, 32 - keep); v.truncate(keep); v.extend(t); } // equal up to an offset
            7 => { let mut d = data.to_vec(); if idx % 2 == 0 { d.pop(); } else { d.push(bit); } v = sha256(&d); } // digest of related data
            8 => v = blob(r, (k as usize) % 41),                                            // anything
            _ => { let n = v.len(); v[n - 1] = v[n - 1].wrapping_add(1); }                  // last octet off by one
        }
        v
    }

    //@harness mft_w_hash W fn=ManifestHash::{new,verify},DigestAlgorithm::digest n=50000 timeout=600
    verif_search!{ mft_w_hash; |a: u64, b: u64, dl: u8, mode: u8, k: u8, idx: u8, bit: u8, other: u8| {
        let r = mix(a) ^ mix(b).rotate_left(21);
        let data = blob(r, (dl as usize) % 131);
        assert!(sha256(b"abc")[..4] == [0xba, 0x78, 0x16, 0xbf], "oracle self-check");
        let listed = gen_hash(&data, mode, k, idx, bit, sub(r, 7));
        let h = ManifestHash::new(Bytes::from(listed.clone()), DigestAlgorithm::sha256());
        // hash clause: verifies exactly when the listed hash equals the SHA-256 of the data
        let want = listed == sha256(&data);
        assert!(h.verify(&data).is_ok() == want, "a listed hash verifies exactly when it equals the SHA-256 of the data: expected ok={} listed={} data={}", want, hex(&listed), hex(&data));
        // the same listed hash against other (related) data
        let mut d2 = data.clone();
        match other % 4 { 0 => { d2.pop(); } 1 => d2.push(0), 2 => d2.clear(), _ => if let Some(x) = d2.first_mut() { *x ^= 0x80 } }
        let want2 = listed == sha256(&d2);
        assert!(h.verify(&d2).is_ok() == want2, "a listed hash verifies exactly when it equals the SHA-256 of the data (other data): expected ok={} listed={} data={}", want2, hex(&listed), hex(&d2));
    }}

    const BASES: &[&[u8]] = &[
        b"rsync://host.example/module/", b"rsync://host.example/module/dir", b"rsync://host.example/module/dir/",
        b"rsync://h/m/a/b.c/", b"rsync://h/m/a.b/c.mft", b"rsync://Host:873/Mod/x-y_z",
    ];
    fn time(secs: i64) -> Time { Time::new(chrono::DateTime::<chrono::Utc>::from_timestamp(secs, 0).unwrap()) }

    /// the clauses of C14 for one decoded manifest (names / hashes / times are what was encoded)
    fn check_decoded(m: &ManifestContent, via: &str, names: &[Vec<u8>], hashes: &[Vec<u8>], datas: &[Vec<u8>], next_secs: i64, base: &[u8]) {
        let ctx = format!("via {} names={:?}", via, names.iter().map(|n| show(n)).collect::<Vec<_>>());
        // this-update is not after next-update
        assert!(m.this_update().timestamp() <= m.next_update().timestamp(), "decoded manifest: thisUpdate is not after nextUpdate ({})", ctx);
        // every listed name is one RFC 9286 segment; len() is the number of entries the iterator yields
        let listed = catch_unwind(AssertUnwindSafe(|| m.iter().collect::<Vec<_>>()));
        assert!(listed.is_ok(), "decoded manifest: iterating the file list does not panic ({})", ctx);
        let listed = listed.unwrap();
        assert!(listed.iter().all(|e| rfc9286(e.file().as_ref())), "decoded manifest: every listed file name is an RFC 9286 segment ({})", ctx);
        assert!(m.len() == listed.len(), "decoded manifest: len() equals the number of entries iter() yields: len={} yielded={} ({})", m.len(), listed.len(), ctx);
        assert!(listed.len() == names.len(), "decoded manifest: lists the encoded entries: yielded={} ({})", listed.len(), ctx);
        // resolving against a base directory never panics and yields URIs directly inside that directory
        let b = uri::Rsync::from_slice(base).unwrap();
        let mut dir = base.to_vec();
        if !dir.ends_with(b"/") { dir.push(b'/') }
        let uris = catch_unwind(AssertUnwindSafe(|| m.iter_uris(&b).collect::<Vec<_>>()));
        assert!(uris.is_ok(), "decoded manifest: iter_uris does not panic ({})", ctx);
        let uris = uris.unwrap();
        assert!(uris.len() == m.len(), "decoded manifest: iter_uris yields len() entries: yielded={} ({})", uris.len(), ctx);
        for (i, (u, h)) in uris.iter().enumerate() {
            let text = u.as_slice();
            assert!(text.len() > dir.len() && text[..dir.len()] == dir[..] && text[dir.len()..] == names[i][..], "decoded manifest: URI is base joined with the listed name: uri={} ({})", show(text), ctx);
            assert!(!text[dir.len()..].contains(&b'/'), "decoded manifest: URI has no further '/' below the base directory: uri={} ({})", show(text), ctx);
            assert!(u.parent().map(|p| p.as_slice() == &dir[..]).unwrap_or(false), "decoded manifest: parent of the URI is the base directory: uri={} ({})", show(text), ctx);
            // the listed hash verifies exactly when it equals the SHA-256 of the data
            let want = hashes[i] == sha256(&datas[i]);
            assert!(h.verify(&datas[i]).is_ok() == want, "decoded manifest: listed hash verifies exactly when it equals the SHA-256 of the data: expected ok={} listed={} data={}", want, hex(&hashes[i]), hex(&datas[i]));
        }
        // stale exactly when next-update has passed (only times decades away from any plausible clock are used)
        assert!(m.is_stale() == (next_secs < 1_767_225_600), "decoded manifest: stale exactly when nextUpdate lies in the past: nextUpdate={}", next_secs);
    }

    //@harness mft_w_decode W fn=ManifestContent::{new,encode_ref,take_from,iter,iter_uris,len,this_update,next_update,is_stale},Manifest::{decode,content},FileAndHash::{skip_opt_in,take_opt_from,validate_file_name,encode_ref},FileListIter::next,ManifestHash::{new,verify} n=40000 timeout=900
    verif_search!{ mft_w_decode; |a: u64, b: u64, c: u64, k: u8, epoch: u8, off: u32, d: u32, after: bool, basesel: u8| {
        let r = mix(a) ^ mix(b).rotate_left(21) ^ mix(c).rotate_left(42);
        // 0..=4 entries; hash lengths of any size, usually the digest of the entry's data or a damaged one
        let n = [0usize, 1, 1, 2, 2, 3, 4][(k % 7) as usize];
        let names: Vec<Vec<u8>> = (0..n).map(|i| gen_name(sub(r, 100 + i as u64))).collect();
        let datas: Vec<Vec<u8>> = (0..n).map(|i| blob(sub(r, 200 + i as u64), (sub(r, 300 + i as u64) % 70) as usize)).collect();
        let hashes: Vec<Vec<u8>> = (0..n).map(|i| {
            let q = sub(r, 400 + i as u64);
            gen_hash(&datas[i], q as u8, (q >> 8) as u8, (q >> 16) as u8, (q >> 24) as u8, q)
        }).collect();
        // update times: far past (1985, end of 2019) or far future (2299/2300); nextUpdate d seconds before / after
        let e = [473_385_600i64, 1_577_836_770, 10_413_791_999, 10_413_792_000][(epoch % 4) as usize];
        let this_secs = e + (off % 100_000) as i64;
        let next_secs = if after { this_secs + (d % 200_000) as i64 } else { this_secs - (d % 200_000) as i64 };
        let base = BASES[(basesel as usize) % BASES.len()];

        // built and encoded by the library itself, as its own tests do
        let entries: Vec<FileAndHash<Vec<u8>, Vec<u8>>> = (0..n).map(|i| FileAndHash::new(names[i].clone(), hashes[i].clone())).collect();
        let built = ManifestContent::new(Serial::from(sub(r, 5) >> (sub(r, 6) % 64)), time(this_secs), time(next_secs), DigestAlgorithm::sha256(), entries.iter());
        assert!(built.len() == n, "built manifest: len() is the number of entries given");
        let der = built.encode_ref().to_captured(Mode::Der).into_bytes();

        let all_valid = names.iter().all(|x| rfc9286(x));
        let want = all_valid && this_secs <= next_secs;
        let ctx = format!("names={:?} thisUpdate={} nextUpdate={}", names.iter().map(|x| show(x)).collect::<Vec<_>>(), this_secs, next_secs);

        // decoder 1: ManifestContent::take_from (capturing skip path)
        let m1 = Mode::Der.decode(der.clone(), ManifestContent::take_from);
        assert!(m1.is_ok() == want, "ManifestContent::take_from accepts exactly manifests whose names are all RFC 9286 segments and whose thisUpdate is not after nextUpdate: accepted={} {}", m1.is_ok(), ctx);
        // decoder 2: Manifest::decode on a signed object carrying the same content
        let m2 = Manifest::decode(wrap(der.clone()), false);
        assert!(m2.is_ok() == want, "Manifest::decode accepts exactly manifests whose names are all RFC 9286 segments and whose thisUpdate is not after nextUpdate: accepted={} {}", m2.is_ok(), ctx);
        // decoder 3: FileAndHash::take_opt_from through iter() on the built list: it never hands out an invalid
        // name (it may stop or panic there) and hands out everything when all names are valid
        let mut seen: Vec<FileAndHash<Bytes, Bytes>> = Vec::new();
        let done = catch_unwind(AssertUnwindSafe(|| for x in built.iter() { seen.push(x) })).is_ok();
        assert!(seen.iter().all(|x| rfc9286(x.file().as_ref())), "iter() never yields a name that is not an RFC 9286 segment: {}", ctx);
        if all_valid { assert!(done && seen.len() == n, "iter() yields every entry of a list of valid names: yielded={} {}", seen.len(), ctx); }

        if let Ok(m) = m1 { check_decoded(&m, "ManifestContent::take_from", &names, &hashes, &datas, next_secs, base); }
        if let Ok(m) = m2 { check_decoded(m.content(), "Manifest::decode", &names, &hashes, &datas, next_secs, base); }
    }}
}
//@end
