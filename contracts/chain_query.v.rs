// Unit chain_query (C03): membership / containment / equality queries of
// src/repository/resources/chain.rs against the mathematical view of a chain.
use vstd::prelude::*;
use vstd::std_specs::cmp::*;
use core::cmp::Ordering;
use core::cmp::{min, max};

verus! {

//@include shared/chain_env.v.rs

impl<T: Block> Chain<T> {
    //@fn src/repository/resources/chain.rs :: impl<T: Block> Chain<T> :: contains_item loopiso
    //@spec
        requires canonical(self.0@),
        ensures r == in_view(self.0@, T::val(item)),
    //@/spec
    //@ghost begin
        proof { T::ord_law(); }
    //@/ghost
    //@loop "for block in &self.0" iter=it
            invariant
                it.seq().len() == self.0@.len(),
                forall|i: int| 0 <= i < self.0@.len() ==> *(#[trigger] it.seq()[i]) == self.0@[i],
                forall|i: int| 0 <= i < it.index@ ==> (#[trigger] self.0@[i]).hi() < T::val(item),
    //@/loop
    //@ghost after "if block.min() > item {"
                proof {
                    let k = it.index@ as int;
                    assert forall|i: int| 0 <= i < self.0@.len() implies !((#[trigger] self.0@[i]).lo() <= T::val(item) <= self.0@[i].hi()) by {
                        if i > k { assert(self.0@[k].hi() + 1 < self.0@[i].lo()); }
                    }
                }
    //@/ghost
    //@end
}

} // verus!
fn main() {}
