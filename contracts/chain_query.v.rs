// Unit chain_query (C03): membership / containment / equality queries of
// src/repository/resources/chain.rs against the mathematical view of a chain:
//   Chain::contains_item  r == in_view(self, item)
//   Chain::is_encompassed r == view_subset(self, other)     (R4; every unwrap() panic-free)
//   PartialEq::eq         r == view_eq(self, other)         (R3: emitted as Chain::eq_impl)
// `self.iter()` reaches `[T]::iter` through the real `Deref::deref` / `Chain::as_slice`, both
// extracted below (no R12 substitution, no new assumption).
use vstd::prelude::*;
use vstd::std_specs::cmp::*;
use vstd::std_specs::iter::IteratorSpec;
use core::cmp::Ordering;
use core::cmp::{min, max};
use core::ops;

verus! {

//@include shared/chain_env.v.rs

pub mod lem {
use super::*;

/// block b lies inside one block of s
pub open spec fn covered<T: Block>(b: T, s: Seq<T>) -> bool {
    exists|m: int| 0 <= m < s.len() && (#[trigger] s[m]).lo() <= b.lo() && b.hi() <= s[m].hi()
}

/// nothing is a subset of the empty set except the empty set
pub broadcast proof fn lemma_subset_of_empty<T: Block>(a: Seq<T>, b: Seq<T>)
    requires b.len() == 0, blocks_ok(a),
    ensures #[trigger] view_subset(a, b) == (a.len() == 0),
{
    if a.len() > 0 {
        assert(in_view(a, a[0].lo()));
        assert(!in_view(b, a[0].lo()));
    }
}

/// the lower bound of a[k] lies in no block of b
pub broadcast proof fn lemma_lo_uncovered<T: Block>(a: Seq<T>, b: Seq<T>, k: int)
    requires
        0 <= k < a.len(), (#[trigger] a[k]).lo() <= a[k].hi(),
        forall|m: int| 0 <= m < b.len() ==> (#[trigger] b[m]).hi() < a[k].lo() || a[k].lo() < b[m].lo(),
    ensures !#[trigger] view_subset(a, b),
{
    assert(in_view(a, a[k].lo()));
    assert(!in_view(b, a[k].lo()));
}

/// b[j] ends inside a[k] before a[k] does: the item after b[j] is in a but (b canonical) not in b
pub broadcast proof fn lemma_hi_succ_uncovered<T: Block>(a: Seq<T>, b: Seq<T>, k: int, j: int)
    requires
        canonical(b), 0 <= k < a.len(), 0 <= j < b.len(),
        (#[trigger] a[k]).lo() <= (#[trigger] b[j]).hi() + 1 <= a[k].hi(),
    ensures !#[trigger] view_subset(a, b),
{
    let x = b[j].hi() + 1;
    assert(in_view(a, x));
    assert forall|m: int| 0 <= m < b.len() implies !((#[trigger] b[m]).lo() <= x <= b[m].hi()) by {
        if m < j { assert(b[m].hi() + 1 < b[j].lo()); }
        if m > j { assert(b[j].hi() + 1 < b[m].lo()); }
    }
    assert(!in_view(b, x));
}

/// same number of blocks, same bounds at every position
pub open spec fn pointwise_eq<T: Block>(a: Seq<T>, b: Seq<T>) -> bool {
    &&& a.len() == b.len()
    &&& forall|i: int| 0 <= i < a.len() ==> (#[trigger] a[i]).lo() == b[i].lo() && a[i].hi() == b[i].hi()
}

/// the smallest element of view(a) is a[0].lo; it lies in view(b), so b's smallest is not larger
pub proof fn lemma_first_lo_le<T: Block>(a: Seq<T>, b: Seq<T>)
    requires canonical(a), canonical(b), view_subset(a, b), a.len() > 0,
    ensures b.len() > 0, b[0].lo() <= a[0].lo(),
{
    let x = a[0].lo();
    assert(in_view(a, x));
    assert(in_view(b, x));
    let j = choose|j: int| 0 <= j < b.len() && (#[trigger] b[j]).lo() <= x <= b[j].hi();
    if j > 0 { assert(b[0].hi() + 1 < b[j].lo()); }
}

/// equal starts: the first block of a cannot reach beyond the first block of b (b has a gap there)
pub proof fn lemma_first_hi_le<T: Block>(a: Seq<T>, b: Seq<T>)
    requires canonical(a), canonical(b), view_subset(a, b), a.len() > 0, b.len() > 0, a[0].lo() == b[0].lo(),
    ensures a[0].hi() <= b[0].hi(),
{
    if a[0].hi() > b[0].hi() {
        let x = b[0].hi() + 1;
        assert(in_view(a, x));
        assert(in_view(b, x));
        let j = choose|j: int| 0 <= j < b.len() && (#[trigger] b[j]).lo() <= x <= b[j].hi();
        if j > 0 { assert(b[0].hi() + 1 < b[j].lo()); }
    }
}

/// equal first blocks: containment carries over to the tails
pub proof fn lemma_tail_subset<T: Block>(a: Seq<T>, b: Seq<T>)
    requires
        canonical(a), canonical(b), view_subset(a, b), a.len() > 0, b.len() > 0,
        a[0].lo() == b[0].lo(), a[0].hi() == b[0].hi(),
    ensures canonical(a.drop_first()), view_subset(a.drop_first(), b.drop_first()),
{
    let a1 = a.drop_first();
    let b1 = b.drop_first();
    assert forall|i: int| 0 <= i < a1.len() implies (#[trigger] a1[i]).lo() <= a1[i].hi() by { assert(a1[i] == a[i + 1]); }
    assert forall|i: int, j: int| 0 <= i < j < a1.len() implies (#[trigger] a1[i]).hi() + 1 < (#[trigger] a1[j]).lo() by {
        assert(a1[i] == a[i + 1] && a1[j] == a[j + 1]);
    }
    assert forall|x: int| in_view(a1, x) implies in_view(b1, x) by {
        let i = choose|i: int| 0 <= i < a1.len() && (#[trigger] a1[i]).lo() <= x <= a1[i].hi();
        assert(a1[i] == a[i + 1]);
        assert(a[0].hi() + 1 < a[i + 1].lo());
        assert(in_view(a, x));
        assert(in_view(b, x));
        let j = choose|j: int| 0 <= j < b.len() && (#[trigger] b[j]).lo() <= x <= b[j].hi();
        assert(j > 0);
        assert(b1[j - 1] == b[j]);
    }
}

/// two canonical block sequences denoting the same set are equal block by block
pub proof fn lemma_view_eq_pointwise<T: Block>(a: Seq<T>, b: Seq<T>)
    requires canonical(a), canonical(b), view_eq(a, b),
    ensures pointwise_eq(a, b),
    decreases a.len(),
{
    assert(view_subset(a, b) && view_subset(b, a));
    if a.len() == 0 {
        if b.len() > 0 { lemma_first_lo_le(b, a); }
    } else {
        lemma_first_lo_le(a, b);
        lemma_first_lo_le(b, a);
        lemma_first_hi_le(a, b);
        lemma_first_hi_le(b, a);
        lemma_tail_subset(a, b);
        lemma_tail_subset(b, a);
        let a1 = a.drop_first();
        let b1 = b.drop_first();
        assert(view_eq(a1, b1));
        lemma_view_eq_pointwise(a1, b1);
        assert forall|i: int| 0 <= i < a.len() implies (#[trigger] a[i]).lo() == b[i].lo() && a[i].hi() == b[i].hi() by {
            if i > 0 { assert(a1[i - 1] == a[i] && b1[i - 1] == b[i]); }
        }
    }
}

/// the converse needs no chain invariant
pub proof fn lemma_pointwise_view_eq<T: Block>(a: Seq<T>, b: Seq<T>)
    requires pointwise_eq(a, b),
    ensures view_eq(a, b),
{
    assert forall|x: int| in_view(a, x) <==> in_view(b, x) by {
        if in_view(a, x) {
            let i = choose|i: int| 0 <= i < a.len() && (#[trigger] a[i]).lo() <= x <= a[i].hi();
            assert(b[i].lo() <= x <= b[i].hi());
        }
        if in_view(b, x) {
            let i = choose|i: int| 0 <= i < b.len() && (#[trigger] b[i]).lo() <= x <= b[i].hi();
            assert(a[i].lo() <= x <= a[i].hi());
        }
    }
}

pub broadcast proof fn lemma_view_eq_iff_pointwise<T: Block>(a: Seq<T>, b: Seq<T>)
    requires canonical(a), canonical(b),
    ensures #[trigger] view_eq(a, b) == pointwise_eq(a, b),
{
    if view_eq(a, b) { lemma_view_eq_pointwise(a, b); }
    if pointwise_eq(a, b) { lemma_pointwise_view_eq(a, b); }
}

} // mod lem
pub use lem::*;

impl<T: Block> Chain<T> {
    //@fn src/repository/resources/chain.rs :: impl<T: Block> Chain<T> :: contains_item loopiso
    //@spec
        requires canonical(self.0@),
        ensures r == in_view(self.0@, T::val(item)),
    //@/spec
    //@ghost begin
        proof { T::ord_law(); }
    //@/ghost
    //@loop "for block in &self.0" iter=it
            invariant
                it.seq().len() == self.0@.len(),
                forall|i: int| 0 <= i < self.0@.len() ==> *(#[trigger] it.seq()[i]) == self.0@[i],
                forall|i: int| 0 <= i < it.index@ ==> (#[trigger] self.0@[i]).hi() < T::val(item),
    //@/loop
    //@ghost after "if block.min() > item {"
                proof {
                    let k = it.index@ as int;
                    assert forall|i: int| 0 <= i < self.0@.len() implies !((#[trigger] self.0@[i]).lo() <= T::val(item) <= self.0@[i].hi()) by {
                        if i > k { assert(self.0@[k].hi() + 1 < self.0@[i].lo()); }
                    }
                }
    //@/ghost
    //@end

    //@fn src/repository/resources/chain.rs :: impl<T: Block> Chain<T> :: as_slice
    //@spec
        ensures r@ == self.0@,
    //@/spec
    //@end

    // The body shadows the parameter `other` by the slice cursor `let mut other = &other.0`; the ghost
    // `o0` keeps the whole slice.  The cursor is always the suffix of o0 of its own length (so no ghost
    // index has to be updated in the body), skipped blocks end before every remaining block of self,
    // and every block of self seen so far lies inside one block of o0.  The three `false` exits are
    // closed by the broadcast lemmas (triggered by the postcondition's `view_subset` term).
    //@fn src/repository/resources/chain.rs :: impl<T: Block> Chain<T> :: is_encompassed loopiso
    //@sigsub R4 "<C: AsRef<Chain<T>>>(&self, other: &C)" "(&self, other: &Chain<T>)"
    //@sub R4 "other.as_ref().0" "other.0"
    //@spec
        requires canonical(self.0@), canonical(other.0@),
        ensures r == view_subset(self.0@, other.0@),
    //@/spec
    //@ghost begin
        proof { T::ord_law(); }
        broadcast use {lem::lemma_subset_of_empty, lem::lemma_lo_uncovered, lem::lemma_hi_succ_uncovered};
        let ghost o0 = other.0@;
    //@/ghost
    //@loop "for block in self.iter()" iter=it
            invariant
                it.seq().len() == self.0@.len(),
                forall|i: int| 0 <= i < self.0@.len() ==> *(#[trigger] it.seq()[i]) == self.0@[i],
                1 <= other@.len() <= o0.len(),
                other@ =~= o0.subrange(o0.len() - other@.len(), o0.len() as int),
                forall|i: int| 0 <= i < it.index@ ==> covered(#[trigger] self.0@[i], o0),
                forall|m: int, i: int| 0 <= m < o0.len() - other@.len() && it.index@ <= i < self.0@.len()
                    ==> (#[trigger] o0[m]).hi() < (#[trigger] self.0@[i]).lo(),
    //@/loop
    //@loop "while other.first()"
                invariant
                    1 <= other@.len() <= o0.len(),
                    other@ =~= o0.subrange(o0.len() - other@.len(), o0.len() as int),
                    forall|m: int, i: int| 0 <= m < o0.len() - other@.len() && it.index@ <= i < self.0@.len()
                        ==> (#[trigger] o0[m]).hi() < (#[trigger] self.0@[i]).lo(),
                decreases other@.len(),
    //@/loop
    //@end

    // Both slice iterators have consumed the same number k of blocks, and the first k blocks agree in
    // (lo, hi); every exit is decided by view_eq == pointwise_eq (lemma_view_eq_iff_pointwise).
    // `remaining()` is prophetic, hence the measure is vstd's `decrease()`.
    //@fn src/repository/resources/chain.rs :: impl<T: Block> PartialEq for Chain<T> :: eq as=eq_impl loopiso
    //@spec
        requires canonical(self.0@), canonical(other.0@),
        ensures r == view_eq(self.0@, other.0@),
    //@/spec
    //@ghost begin
        proof { T::ord_law(); }
        broadcast use lem::lemma_view_eq_iff_pointwise;
    //@/ghost
    //@loop "loop"
            invariant
                self_iter.obeys_prophetic_iter_laws(), other_iter.obeys_prophetic_iter_laws(),
                self_iter.decrease() is Some,
                self_iter.remaining().len() <= self.0@.len(),
                other_iter.remaining().len() <= other.0@.len(),
                self.0@.len() - self_iter.remaining().len() == other.0@.len() - other_iter.remaining().len(),
                forall|i: int| 0 <= i < self_iter.remaining().len() ==>
                    *(#[trigger] self_iter.remaining()[i]) == self.0@[self.0@.len() - self_iter.remaining().len() + i],
                forall|i: int| 0 <= i < other_iter.remaining().len() ==>
                    *(#[trigger] other_iter.remaining()[i]) == other.0@[other.0@.len() - other_iter.remaining().len() + i],
                forall|i: int| 0 <= i < self.0@.len() - self_iter.remaining().len() ==>
                    (#[trigger] self.0@[i]).lo() == other.0@[i].lo() && self.0@[i].hi() == other.0@[i].hi(),
            decreases self_iter.decrease().unwrap(),
    //@/loop
    //@end
}

impl<T: Block> ops::Deref for Chain<T> {
    type Target = [T];
    //@fn src/repository/resources/chain.rs :: impl<T: Block> ops::Deref for Chain<T> :: deref
    //@spec
        ensures r@ == self.0@,
    //@/spec
    //@end
}

// ---- vacuity guards -----------------------------------------------------------------------
/// A concrete Block (closed u8 intervals): the assumed leaf contract incl. `ord_law` is satisfiable.
#[derive(Clone, Copy)]
pub struct WBlock { pub lo: u8, pub hi: u8 }

impl Block for WBlock {
    type Item = u8;
    open spec fn val(item: u8) -> int { item as int }
    open spec fn lo(&self) -> int { self.lo as int }
    open spec fn hi(&self) -> int { self.hi as int }
    open spec fn item_min() -> int { 0 }
    open spec fn item_max() -> int { 255 }
    proof fn ord_law() {}
    fn new(min: u8, max: u8) -> Self { WBlock { lo: min, hi: max } }
    fn min(&self) -> u8 { self.lo }
    fn max(&self) -> u8 { self.hi }
    fn next(item: u8) -> Option<u8> { if item == 255 { None } else { Some(item + 1) } }
    fn previous(item: u8) -> Option<u8> { if item == 0 { None } else { Some(item - 1) } }
}

/// witnesses for the preconditions; both outcomes of both queries occur
proof fn reach_queries()
{
    let b = WBlock { lo: 1, hi: 3 };
    let c = WBlock { lo: 5, hi: 9 };
    let bc = seq![b, c];
    let cc = seq![c];
    assert(canonical(bc) && canonical(cc) && canonical(Seq::<WBlock>::empty()));
    assert forall|x: int| in_view(cc, x) implies in_view(bc, x) by {
        assert(bc[1].lo() <= x <= bc[1].hi());
    }
    assert(view_subset(cc, bc));
    assert(bc[0].lo() <= 2 <= bc[0].hi());
    assert(in_view(bc, 2) && !in_view(cc, 2));
    assert(!view_subset(bc, cc));
    assert(view_eq(bc, bc));
    assert(!view_eq(bc, cc));
}

} // verus!
fn main() {}
