// Unit text_w (C13, and the text / serde / resource-limit clauses of C03): WITNESS SEARCH ONLY (kind W) -
// proves nothing, never counted.  The Verus / Kani units for these properties work on extracted text and on
// integer models; String, Display/FromStr, serde and hashing are outside of what they can carry, and a
// restructured function makes them come back undecided.  This unit is the anchor-free last line: the COMPILED
// functions run natively on biased random values and texts and are compared with the clauses of the property
// written down independently:
//   * a prefix is modelled as (family, first address, length) with its address range computed on u128;
//     constructor rules, covers == range inclusion, the documented order, Eq/Hash consistency, text and serde
//     round trips are stated on that model;
//   * AS-number sets are compared with BTreeSet; block collections with canonical interval lists.
// A hit is a concrete input on which the real code violates a clause; it is replayed and reported.
//@features ca,rtr,slurm

//@append src/resources/addr.rs
#[cfg(any(kani, verif_replay))]
#[allow(dead_code, unused)]
pub(crate) mod verif_text_w_spec {
    use std::cmp::Ordering;
    use std::collections::hash_map::DefaultHasher;
    use std::hash::{Hash, Hasher};
    use std::net::{IpAddr, Ipv4Addr, Ipv6Addr};

    pub fn h<T: Hash>(t: &T) -> u64 { let mut s = DefaultHasher::new(); t.hash(&mut s); s.finish() }
    /// the n lowest bits
    pub fn lowmask(n: u32) -> u128 { if n >= 128 { u128::MAX } else { (1u128 << n) - 1 } }
    /// the first `len` of `w` bits of a right-aligned value, the rest cleared
    pub fn keep(val: u128, w: u32, len: u32) -> u128 { if len == 0 { 0 } else if len >= w { val } else { val >> (w - len) << (w - len) } }
    pub fn addr_of(v4: bool, val: u128) -> IpAddr { if v4 { IpAddr::V4(Ipv4Addr::from(val as u32)) } else { IpAddr::V6(Ipv6Addr::from(val)) } }

    /// reference model of a prefix: family, first address (left-aligned in 128 bits: IPv4 in the top 32), length
    #[derive(Clone, Copy, Debug, PartialEq, Eq)]
    pub struct M { pub v4: bool, pub lo: u128, pub len: u8 }
    impl M {
        /// from a right-aligned address of the family's width; host bits are dropped
        pub fn new(v4: bool, val: u128, len: u8) -> M {
            let w: u32 = if v4 { 32 } else { 128 };
            assert!(len as u32 <= w);
            M { v4, lo: keep(val & lowmask(w), w, len as u32) << (128 - w), len }
        }
        pub fn w(&self) -> u32 { if self.v4 { 32 } else { 128 } }
        /// first address, right-aligned
        pub fn val(&self) -> u128 { self.lo >> (128 - self.w()) }
        /// last address of the range (left-aligned, for IPv4 with the 96 unused bits set: only compared with IPv4)
        pub fn hi(&self) -> u128 { self.lo | (if self.len >= 128 { 0 } else { u128::MAX >> self.len }) }
        pub fn first(&self) -> IpAddr { addr_of(self.v4, self.val()) }
        pub fn last(&self) -> IpAddr { addr_of(self.v4, self.hi() >> (128 - self.w())) }
        /// address-range inclusion within one family
        pub fn covers(&self, o: &M) -> bool { self.v4 == o.v4 && self.lo <= o.lo && o.hi() <= self.hi() }
        /// the documented order: IPv4 before IPv6, a more specific prefix before any prefix covering it,
        /// otherwise by address
        pub fn order(&self, o: &M) -> Ordering {
            if self.v4 != o.v4 { return if self.v4 { Ordering::Less } else { Ordering::Greater } }
            if self == o { Ordering::Equal }
            else if self.covers(o) { Ordering::Greater }
            else if o.covers(self) { Ordering::Less }
            else { self.lo.cmp(&o.lo) }
        }
        /// a second prefix related to this one: inside it / an ancestor, in the sibling subtree, with the same
        /// first address, of the other family (often /0), unrelated, identical, starting right after it
        pub fn related(&self, rel: u8, y: u128, len2: u8) -> M {
            let w = self.w();
            let l = |ww: u32| (len2 as u32 % (ww + 1)) as u8;
            let (v, hb, yv) = (self.val(), w - self.len as u32, y & lowmask(w));
            match rel % 8 {
                0 | 1 => M::new(self.v4, v | (yv & lowmask(hb)), l(w)),
                2 => M::new(self.v4, (v ^ (if hb < w { 1u128 << hb } else { 0 })) | (yv & lowmask(hb)), l(w)),
                3 => M::new(self.v4, v, l(w)),
                4 => { let ow = if self.v4 { 128 } else { 32 }; M::new(!self.v4, if y & 1 == 0 { 0 } else { y >> 1 }, if y & 6 == 0 { 0 } else { l(ow) }) }
                5 => M::new(self.v4, yv, l(w)),
                6 => *self,
                _ => M::new(self.v4, (v | lowmask(hb)).wrapping_add(1), l(w)),
            }
        }
    }

    /// an interval list: closed intervals of u128
    pub type Iv = Vec<(u128, u128)>;
    /// canonical form (ascending, disjoint, non-adjacent) of the union of arbitrary non-empty intervals
    pub fn norm(mut v: Iv) -> Iv {
        v.sort();
        let mut out: Iv = Vec::new();
        for (lo, hi) in v {
            assert!(lo <= hi);
            match out.last_mut() {
                Some(last) if last.1 == u128::MAX || lo <= last.1 + 1 => { if hi > last.1 { last.1 = hi } }
                _ => out.push((lo, hi)),
            }
        }
        out
    }
    pub fn inter(a: &Iv, b: &Iv) -> Iv {
        let mut out = Vec::new();
        for x in a { for y in b { let (lo, hi) = (x.0.max(y.0), x.1.min(y.1)); if lo <= hi { out.push((lo, hi)) } } }
        norm(out)
    }
    /// complement within 0..=u128::MAX
    pub fn compl(b: &Iv) -> Iv {
        let mut out = Vec::new();
        let mut next: Option<u128> = Some(0);
        for (lo, hi) in norm(b.clone()) {
            if let Some(n) = next { if n < lo { out.push((n, lo - 1)) } }
            next = hi.checked_add(1);
        }
        if let Some(n) = next { out.push((n, u128::MAX)) }
        out
    }
    pub fn diff(a: &Iv, b: &Iv) -> Iv { inter(&norm(a.clone()), &compl(b)) }
    pub fn subset(a: &Iv, b: &Iv) -> bool { diff(a, b).is_empty() }
    pub fn has(a: &Iv, x: u128) -> bool { a.iter().any(|b| b.0 <= x && x <= b.1) }
    /// IPv4 intervals (32 bit) in the 128-bit address space of the block types
    pub fn up4(v: &Iv) -> Iv { v.iter().map(|b| (b.0 << 96, b.1 << 96 | lowmask(96))).collect() }

    /// up to 4 non-empty intervals below 2^bits in any order (overlapping, adjacent, repeated); mode picks the
    /// scale: small numbers (optionally shifted / filled to prefix boundaries), pushed against the top, full width
    pub fn mk(n: usize, p: &[u32], mode: u8, bits: u32) -> Iv {
        let top = lowmask(bits);
        let sh = [0, 0, bits / 4, bits - 8][(mode >> 2 & 3) as usize];
        let f = |x: u32| -> u128 { if bits == 128 && mode & 0xE0 == 0xE0 {
            // the IPv4-mapped corner ::ffff:0:0/96 and its neighbourhood (Ipv6Addr writes it in mixed notation)
            return (0xffff_0000_0000u128 + (x as u128 % 48) * 0x0aaa_aaab).wrapping_sub(24) & top
        } match mode & 3 {
            0 | 1 => ((x % 24) as u128) << sh,
            2 => top - (((x % 24) as u128) << sh),
            _ => (x as u128).wrapping_mul(if bits > 32 { 0x0000_0001_0000_0001_0000_0001_0000_0001 } else { 1 }) & top,
        } };
        (0..n.min(p.len() / 2)).map(|i| {
            let (a, b) = (f(p[2 * i]), f(p[2 * i + 1]));
            let (lo, mut hi) = (a.min(b), a.max(b));
            if mode & 0x10 != 0 && mode & 3 < 2 { hi |= lowmask(sh) }
            (lo, hi)
        }).collect()
    }
    pub fn widen(p: &[u8]) -> Vec<u32> { p.iter().map(|b| *b as u32).collect() }
    /// Ipv6Addr prints IPv4-mapped addresses with dots ("::ffff:1.2.3.4"); the IPv6 block parsers take a dot
    /// for IPv4.  Such end points are kept out of the text round trips (reported separately, not a clause here).
    /// (was: excludes end points in ::ffff:0:0/96, whose mixed-notation text did not parse back - repaired in /repo by
    /// 50cfd82 "fix: IPv6 blocks write IPv4-mapped addresses in hexadecimal notation"; no exclusion any more)
    pub fn v6_text_safe(v: &Iv) -> bool { true }
}

#[cfg(any(kani, verif_replay))]
#[allow(dead_code, unused)]
mod verif_text_w_addr {
    use super::*;
    use super::verif_text_w_spec::*;
    use crate::verif_support::{assume, reach};

    fn build(m: &M) -> Prefix { Prefix::new(m.first(), m.len).expect("a cleared address with a length within the family is a prefix") }
    fn same(p: Prefix, m: &M) -> bool { p.is_v4() == m.v4 && p.is_v6() != m.v4 && p.len() == m.len && p.addr() == m.first() }
    fn view(p: Prefix) -> (bool, IpAddr, u8) { (p.is_v4(), p.addr(), p.len()) }
    fn mview(m: &M) -> (bool, IpAddr, u8) { (m.v4, m.first(), m.len) }

    //@harness text_w_prefix W fn=Prefix::{new,new_v4,new_v6,new_relaxed,new_v4_relaxed,new_v6_relaxed,from_str,from_str_relaxed,fmt,serialize,deserialize,covers,cmp,eq,hash,min_addr,max_addr},Bits::{is_host_zero,clear_host,into_max},FamilyAndLen::{new_v4,new_v6,len} n=120000 timeout=600
    verif_search!{ text_w_prefix; |v4: bool, x4: u32, x6: u128, len: u8, am: u8, tsel: u8, rel: u8, y: u128, len2: u8, y2: u128, len3: u8| {
        let w: u32 = if v4 { 32 } else { 128 };
        let raw: u128 = if v4 { x4 as u128 } else { x6 };
        let len = if am & 0x40 != 0 { len } else { (len as u32 % (w + 2)) as u8 };
        let hb = w.saturating_sub(len as u32);
        let kept = keep(raw, w, len as u32);
        // the address: arbitrary, with zero host bits, with only the lowest / only the highest host bit set
        let val = match am % 6 { 0 | 5 => raw, 1 | 2 => kept, 3 => kept | 1, _ => kept | (if hb > 0 { 1u128 << (hb - 1) } else { 0 }) };
        let (len_ok, host0) = (len as u32 <= w, val & lowmask(hb) == 0);
        let ip = addr_of(v4, val);
        let want_strict = if len_ok && host0 { Some(mview(&M::new(v4, val, len))) } else { None };
        let want_relaxed = if len_ok { Some(mview(&M::new(v4, val, len))) } else { None };
        // strict construction: length within the family and zero host bits
        let strict = Prefix::new(ip, len);
        let strict_f = if v4 { Prefix::new_v4(Ipv4Addr::from(val as u32), len) } else { Prefix::new_v6(Ipv6Addr::from(val), len) };
        assert!(strict.ok().map(view) == want_strict && strict_f.ok().map(view) == want_strict, "new / new_v4 / new_v6 accept exactly a length within the family with zero host bits and keep address and length");
        // relaxed construction: length within the family, host bits cleared
        let relaxed = Prefix::new_relaxed(ip, len);
        let relaxed_f = if v4 { Prefix::new_v4_relaxed(Ipv4Addr::from(val as u32), len) } else { Prefix::new_v6_relaxed(Ipv6Addr::from(val), len) };
        assert!(relaxed.ok().map(view) == want_relaxed && relaxed_f.ok().map(view) == want_relaxed, "relaxed construction accepts exactly a length within the family and clears the host bits");
        // text: strict / relaxed parser on "<address>/<length>" and on malformed variants
        let text = match tsel % 8 {
            0 | 1 | 2 => format!("{}/{}", ip, len),
            3 => format!("{}", ip),
            4 => format!("{}/", ip),
            5 => String::new(),
            6 => format!("{}/{}", ip, len as u16 + 256),
            _ => format!("/{}", len),
        };
        let well_formed = tsel % 8 < 3;
        assert!(Prefix::from_str(&text).ok().map(view) == (if well_formed { want_strict } else { None }), "FromStr accepts exactly <addr>/<len> with a length within the family and zero host bits");
        assert!(Prefix::from_str_relaxed(&text).ok().map(view) == (if well_formed { want_relaxed } else { None }), "from_str_relaxed accepts exactly <addr>/<len> with a length within the family and clears the host bits");
        assert!(serde_json::from_str::<Prefix>(&format!("\"{}\"", text)).ok().map(view) == (if well_formed { want_strict } else { None }), "deserialising is strict parsing of the string");
        assert!(MaxLenPrefix::from_str(&text).ok().map(|p| (view(p.prefix()), p.max_len())) == (if well_formed { want_strict.map(|x| (x, None)) } else { None }), "MaxLenPrefix::from_str without max-len is strict prefix parsing");
        if !len_ok { return }
        let m = M::new(v4, val, len);
        let a = build(&m);
        assert!(same(a, &m) && a.addr_and_len() == (m.first(), m.len), "accessors give family, address and length back");
        // a relaxed-built value is THE prefix of the cleared address (no hidden host bits in ==, hash, order)
        let r = relaxed.unwrap();
        assert!(r == a && h(&r) == h(&a) && r.cmp(&a) == Ordering::Equal && r.covers(a) && a.covers(r), "relaxed construction yields the prefix of the cleared address (==, hash, cmp, covers)");
        assert!(relaxed_f.unwrap() == a && h(&relaxed_f.unwrap()) == h(&a), "relaxed family constructor yields the prefix of the cleared address");
        assert!(a.min_addr() == m.first() && a.max_addr() == m.last(), "min_addr / max_addr are the ends of the address range");
        // Display -> FromStr / serde round trip
        let t = a.to_string();
        assert!(Prefix::from_str(&t) == Ok(a) && Prefix::from_str_relaxed(&t) == Ok(a), "Display -> FromStr gives the same prefix");
        let js = serde_json::to_string(&a).unwrap();
        assert!(serde_json::from_str::<Prefix>(&js).ok() == Some(a), "serde round trip gives the same prefix");
        // pairs and triples of related prefixes
        let b = m.related(rel, y, len2);
        let c = if rel & 0x80 != 0 { b.related(rel >> 3, y2, len3) } else { m.related(rel >> 3, y2, len3) };
        let (pb, pc) = (build(&b), build(&c));
        for (p, q, mp, mq) in [(a, pb, m, b), (pb, a, b, m), (pb, pc, b, c), (pc, a, c, m), (a, a, m, m)] {
            assert!(p.covers(q) == mp.covers(&mq), "covers holds exactly when the other prefix's address range is included (same family)");
            assert!((p == q) == (mp == mq), "== is equality of family, address and length");
            if p == q { assert!(h(&p) == h(&q), "equal prefixes hash equally"); }
            assert!((p.cmp(&q) == Ordering::Equal) == (p == q), "cmp is Equal exactly for equal prefixes");
            assert!(p.cmp(&q) == q.cmp(&p).reverse() && p.partial_cmp(&q) == Some(p.cmp(&q)), "cmp is antisymmetric and agrees with partial_cmp");
            if mq.covers(&mp) && mp != mq { assert!(p < q, "a more specific prefix sorts before any prefix covering it"); }
            assert!(p.cmp(&q) == mp.order(&mq), "documented order: IPv4 before IPv6, more specific before covering, otherwise by address");
        }
        let ps = [a, pb, pc];
        for i in 0..3 { for j in 0..3 { for k in 0..3 {
            if ps[i] <= ps[j] && ps[j] <= ps[k] { assert!(ps[i] <= ps[k], "cmp is transitive"); }
        } } }
    }}

    //@harness text_w_maxlen W fn=MaxLenPrefix::{new,saturating_new,from,prefix,max_len,resolved_max_len,from_str,fmt,cmp,eq,hash} n=150000 timeout=600
    verif_search!{ text_w_maxlen; |v4: bool, x4: u32, x6: u128, len: u8, s1: u8, m1: u8, s2: u8, m2: u8, s3: u8, m3: u8, rel: u8, y: u128, len2: u8| {
        let w: u32 = if v4 { 32 } else { 128 };
        let fm = w as u8;
        let m = M::new(v4, if v4 { x4 as u128 } else { x6 }, (len as u32 % (w + 1)) as u8);
        let a = build(&m);
        // a max-len: absent, == len, len + 1, len - 1, the family maximum (+ 1), anything
        let opt = |s: u8, mm: u8, l: u8, fmax: u8| -> Option<u8> { match s % 8 {
            0 | 1 => None, 2 => Some(l), 3 => Some(l.wrapping_add(1)), 4 => Some(l.wrapping_sub(1)), 5 => Some(fmax),
            6 => Some((mm as u32 % (fmax as u32 + 2)) as u8), _ => Some(mm) } };
        let o1 = opt(s1, m1, m.len, fm);
        // new: only with prefix length <= max length <= family maximum
        let ok = o1.map_or(true, |x| m.len <= x && x <= fm);
        let r = MaxLenPrefix::new(a, o1);
        assert!(r.is_ok() == ok, "MaxLenPrefix::new accepts exactly no max-len or prefix length <= max length <= family maximum");
        if let Ok(mp) = &r {
            assert!(mp.prefix() == a && mp.max_len() == o1 && mp.prefix_len() == m.len && mp.addr() == a.addr(), "new keeps prefix and max-len");
            assert!(mp.resolved_max_len() == o1.unwrap_or(m.len), "effective max length is the max-len or else the prefix length");
        }
        // saturating_new: the max-len is clamped into prefix length ..= family maximum
        let sat = MaxLenPrefix::saturating_new(a, o1);
        let want = o1.map(|x| x.max(m.len).min(fm));
        assert!(sat.prefix() == a && sat.max_len() == want && sat.resolved_max_len() == want.unwrap_or(m.len), "saturating_new clamps the max-len into prefix length ..= family maximum");
        if ok { assert!(r == Ok(sat), "saturating_new agrees with new on valid input"); }
        assert!(MaxLenPrefix::from(a).prefix() == a && MaxLenPrefix::from(a).max_len().is_none(), "From<Prefix> has no max-len");
        // Display -> FromStr: max-len absent, == len, > len
        let t = sat.to_string();
        assert!(MaxLenPrefix::from_str(&t) == Ok(sat), "Display -> FromStr gives the same max-length prefix (max-len absent, equal to or above the prefix length)");
        // FromStr on "<prefix>-<maxlen>" applies the constructor rule
        let raw_t = match o1 { None => a.to_string(), Some(x) => format!("{}-{}", a, x) };
        assert!(MaxLenPrefix::from_str(&raw_t).ok().map(|p| (p.prefix(), p.max_len())) == (if ok { Some((a, o1)) } else { None }), "FromStr accepts exactly prefix length <= max length <= family maximum");
        assert!(MaxLenPrefix::from_str(&format!("{}-", a)).is_err() && MaxLenPrefix::from_str(&format!("{}-{}", a, m1 as u16 + 256)).is_err(), "a missing or oversized max-len is rejected");
        // ordering: a total order consistent with == and hash, by prefix first
        let b = if rel % 4 < 2 { m } else { m.related(rel >> 2, y, len2) };
        let c = if rel & 0x40 != 0 { m } else { b };
        let (pb, pc) = (build(&b), build(&c));
        let vs = [(sat, m), (MaxLenPrefix::saturating_new(pb, opt(s2, m2, b.len, b.w() as u8)), b), (MaxLenPrefix::saturating_new(pc, opt(s3, m3, c.len, c.w() as u8)), c)];
        for (x, mx) in vs { for (z, mz) in vs {
            let eq = mx == mz && x.max_len() == z.max_len();
            assert!((x == z) == eq, "== is equality of prefix and max-len");
            if eq { assert!(h(&x) == h(&z), "equal values hash equally"); }
            assert!((x.cmp(&z) == Ordering::Equal) == eq, "cmp is Equal exactly for equal values");
            assert!(x.cmp(&z) == z.cmp(&x).reverse() && x.partial_cmp(&z) == Some(x.cmp(&z)), "cmp is antisymmetric and agrees with partial_cmp");
            if mx != mz { assert!(x.cmp(&z) == mx.order(&mz), "different prefixes: ordered as the prefixes are"); }
            else {
                let want = match (x.max_len(), z.max_len()) { (None, None) => Ordering::Equal, (Some(_), None) => Ordering::Less, (None, Some(_)) => Ordering::Greater, (Some(n), Some(k)) => k.cmp(&n) };
                assert!(x.cmp(&z) == want, "documented order for one prefix: any max-len before none, larger max-len first");
            }
        } }
        for i in 0..3 { for j in 0..3 { for k in 0..3 {
            if vs[i].0 <= vs[j].0 && vs[j].0 <= vs[k].0 { assert!(vs[i].0 <= vs[k].0, "cmp is transitive"); }
        } } }
    }}
}
//@end

//@append src/resources/asn.rs
#[cfg(any(kani, verif_replay))]
#[allow(dead_code, unused)]
mod verif_text_w_asn {
    use super::*;
    use crate::resources::addr::verif_text_w_spec::h;
    use crate::verif_support::{assume, reach};
    use std::collections::BTreeSet;

    #[derive(serde::Serialize, serde::Deserialize)]
    struct AsStr(#[serde(serialize_with = "Asn::serialize_as_str", deserialize_with = "Asn::deserialize_from_str")] Asn);
    #[derive(serde::Serialize, serde::Deserialize)]
    struct AsBare(#[serde(serialize_with = "Asn::serialize_as_bare_str", deserialize_with = "Asn::deserialize_from_any")] Asn);
    #[derive(serde::Serialize, serde::Deserialize)]
    struct AsU32(#[serde(serialize_with = "Asn::serialize_as_u32", deserialize_with = "Asn::deserialize_from_u32")] Asn);
    #[derive(serde::Serialize, serde::Deserialize)]
    struct AsAny(#[serde(serialize_with = "Asn::serialize_as_str", deserialize_with = "Asn::deserialize_from_any")] Asn);

    /// what a text denotes: an optional two-letter "AS" in any case, then plain decimal digits below 2^32
    fn denotes(t: &[u8]) -> Option<u32> {
        let d = if t.len() >= 2 && t[..2].eq_ignore_ascii_case(b"as") { &t[2..] } else { t };
        if d.is_empty() || !d.iter().all(|c| c.is_ascii_digit()) { return None }
        let mut v: u64 = 0;
        for c in d { v = v * 10 + (*c - b'0') as u64; if v > u32::MAX as u64 { return None } }
        Some(v as u32)
    }

    //@harness text_w_asn W fn=Asn::{from_str,fmt,serialize,deserialize,serialize_as_str,serialize_as_bare_str,serialize_as_u32,deserialize_from_str,deserialize_from_any,deserialize_from_u32},strip_as n=80000 timeout=600
    verif_search!{ text_w_asn; |v: u32, sel: u8, tn: u8, t: [u8; 12]| {
        let a = Asn::from_u32(v);
        assert!(a.into_u32() == v && u32::from(a) == v && Asn::from(v) == a, "from_u32 / into_u32 are inverse");
        // Display -> FromStr; the forms with and without the (case-insensitive) "AS" prefix
        assert!(Asn::from_str(&a.to_string()) == Ok(a), "Display -> FromStr gives the same AS number");
        let form = match sel % 5 { 0 => format!("AS{}", v), 1 => format!("as{}", v), 2 => format!("As{}", v), 3 => format!("aS{}", v), _ => format!("{}", v) };
        assert!(Asn::from_str(&form) == Ok(a), "decimal text with or without an AS prefix parses to its value");
        // serde: default (number), as string with prefix, as bare string, as u32, any
        assert!(serde_json::from_str::<Asn>(&serde_json::to_string(&a).unwrap()).ok() == Some(a), "serde round trip (default form)");
        assert!(serde_json::from_str::<AsStr>(&serde_json::to_string(&AsStr(a)).unwrap()).ok().map(|x| x.0) == Some(a), "serde round trip (string with AS prefix)");
        assert!(serde_json::from_str::<AsBare>(&serde_json::to_string(&AsBare(a)).unwrap()).ok().map(|x| x.0) == Some(a), "serde round trip (bare string, read back by deserialize_from_any)");
        assert!(serde_json::from_str::<AsU32>(&serde_json::to_string(&AsU32(a)).unwrap()).ok().map(|x| x.0) == Some(a), "serde round trip (u32)");
        assert!(serde_json::from_str::<AsAny>(&serde_json::to_string(&AsAny(a)).unwrap()).ok().map(|x| x.0) == Some(a), "serde round trip (AS string, read back by deserialize_from_any)");
        assert!(serde_json::from_str::<AsAny>(&format!("{}", v)).ok().map(|x| x.0) == Some(a), "deserialize_from_any reads a plain number");
        // arbitrary short texts: a value is only ever produced for a text that denotes it
        let alpha = b"0123456789012345678949aAsS-x ";
        let mut txt: Vec<u8> = t[..(tn as usize) % 13].iter().map(|b| alpha[(*b as usize) % alpha.len()]).collect();
        if sel & 0x40 != 0 { let mut p = b"AS".to_vec(); p.extend_from_slice(&txt); txt = p; }
        let s = String::from_utf8(txt.clone()).unwrap();
        let got = Asn::from_str(&s).ok().map(|x| x.into_u32());
        assert!(got == denotes(&txt), "FromStr yields exactly the value a text denotes (optional AS prefix, decimal digits, below 2^32), nothing for other texts");
        assert!(serde_json::from_str::<AsStr>(&format!("\"{}\"", s)).ok().map(|x| x.0.into_u32()) == denotes(&txt), "deserialize_from_str is FromStr on the string");
    }}

    fn pool(k: u8, x: u32) -> u32 { match k % 8 { 0 => 0, 1 => 1, 2 => u32::MAX, 3 => u32::MAX - 1, 4 => x, 5 => x.wrapping_add(1), 6 => x.wrapping_add(2), _ => 7 } }
    fn items(n: u8, i: [u8; 8], x: u32, ord: u8) -> Vec<u32> {
        let mut v: Vec<u32> = i[..(n as usize) % 9].iter().map(|k| pool(*k, x)).collect();
        match ord % 4 { 1 => v.sort(), 2 => { v.sort(); v.reverse() } _ => { } }
        v
    }
    fn set(v: &[u32]) -> SmallAsnSet { v.iter().map(|x| Asn::from_u32(*x)).collect() }
    /// collects a set iterator with a budget
    fn all(it: impl Iterator<Item = Asn>) -> Vec<u32> {
        let mut v = Vec::new();
        for a in it { v.push(a.into_u32()); assert!(v.len() <= 64, "set iterator does not terminate"); }
        v
    }

    //@harness text_w_asnset W fn=SmallAsnSet::{from_iter,iter,len,is_empty,contains,union,intersection,difference,symmetric_difference},SmallSetUnion::next,SmallSetIntersection::next,SmallSetDifference::next,SmallSetSymmetricDifference::next n=120000 timeout=600
    verif_search!{ text_w_asnset; |n1: u8, i1: [u8; 8], o1: u8, n2: u8, i2: [u8; 8], o2: u8, x: u32| {
        let (v1, v2) = (items(n1, i1, x, o1), items(n2, i2, x, o2));
        let (s1, s2) = (set(&v1), set(&v2));
        let (b1, b2): (BTreeSet<u32>, BTreeSet<u32>) = (v1.iter().cloned().collect(), v2.iter().cloned().collect());
        // built from any items (any order, repeats): sorted and duplicate-free
        for (s, b, v) in [(&s1, &b1, &v1), (&s2, &b2, &v2)] {
            assert!(all(s.iter()) == b.iter().cloned().collect::<Vec<u32>>() && all(s.into_iter()) == all(s.iter()), "a set built from any items is sorted and duplicate-free and holds exactly the items");
            assert!(s.len() == b.len() && s.is_empty() == b.is_empty(), "len / is_empty count distinct items");
            for k in 0..8u8 { for d in [0u32, 1, u32::MAX] {
                let p = pool(k, x).wrapping_add(d);
                assert!(s.contains(Asn::from_u32(p)) == b.contains(&p), "contains == membership");
            } }
            let mut rev = v.clone(); rev.reverse();
            assert!(set(&rev) == *s && h(&set(&rev)) == h(s), "the same items in another order give an equal set (==, hash)");
        }
        // the four operations equal the mathematical ones (as sorted duplicate-free sequences)
        assert!(all(s1.union(&s2)) == b1.union(&b2).cloned().collect::<Vec<u32>>(), "union equals the mathematical union");
        assert!(all(s1.intersection(&s2)) == b1.intersection(&b2).cloned().collect::<Vec<u32>>(), "intersection equals the mathematical intersection");
        assert!(all(s1.difference(&s2)) == b1.difference(&b2).cloned().collect::<Vec<u32>>(), "difference equals the mathematical difference");
        assert!(all(s2.difference(&s1)) == b2.difference(&b1).cloned().collect::<Vec<u32>>(), "difference (other direction) equals the mathematical difference");
        assert!(all(s1.symmetric_difference(&s2)) == b1.symmetric_difference(&b2).cloned().collect::<Vec<u32>>(), "symmetric difference equals the mathematical one");
        let u: SmallAsnSet = s1.union(&s2).collect();
        assert!(u == set(&b1.union(&b2).cloned().collect::<Vec<u32>>()), "a collected union is the set of the union");
    }}
}
//@end

//@append src/rtr/payload.rs
#[cfg(any(kani, verif_replay))]
#[allow(dead_code, unused)]
mod verif_text_w_origin {
    use super::*;
    use crate::resources::addr::Prefix;
    use crate::resources::addr::verif_text_w_spec::*;
    use crate::verif_support::{assume, reach};

    //@harness text_w_origin W fn=RouteOrigin::{new,eq,cmp,partial_cmp,hash,is_v4},Payload::{origin,eq,hash},MaxLenPrefix::resolved_max_len n=150000 timeout=600
    verif_search!{ text_w_origin; |v4: bool, x4: u32, x6: u128, len: u8, s1: u8, m1: u8, asn1: u32, rel: u8, y: u128, len2: u8, s2: u8, m2: u8, asn2: u32| {
        let w: u32 = if v4 { 32 } else { 128 };
        let ma = M::new(v4, if v4 { x4 as u128 } else { x6 }, (len as u32 % (w + 1)) as u8);
        // the second origin mostly shares the prefix (then max-len and ASN decide)
        let mb = if rel % 4 < 2 { ma } else { ma.related(rel >> 2, y, len2) };
        let asn2 = if rel & 0x80 != 0 { asn1 } else { asn2 };
        // max-len: absent, == len, anything in range
        let opt = |s: u8, mm: u8, m: &M| -> Option<u8> { match s % 4 { 0 => None, 1 => Some(m.len), 2 => Some(m.len.saturating_add(mm % 3).min(m.w() as u8)), _ => Some(m.len + (mm as u32 % (m.w() - m.len as u32 + 1)) as u8) } };
        let (oa, ob) = (opt(s1, m1, &ma), opt(s2, m2, &mb));
        let mk = |m: &M, o: Option<u8>, asn: u32| RouteOrigin::new(MaxLenPrefix::new(Prefix::new(m.first(), m.len).unwrap(), o).unwrap(), Asn::from_u32(asn));
        let (a, b) = (mk(&ma, oa, asn1), mk(&mb, ob, asn2));
        assert!(a.is_v4() == ma.v4 && a.prefix.prefix().len() == ma.len && a.asn.into_u32() == asn1, "new keeps prefix and ASN");
        // the key: prefix, effective max length, AS number
        let (ka, kb) = ((ma, oa.unwrap_or(ma.len), asn1), (mb, ob.unwrap_or(mb.len), asn2));
        let eq = ka == kb;
        assert!((a == b) == eq && (b == a) == eq && a == a, "== compares prefix, effective max length and AS number");
        if eq { assert!(h(&a) == h(&b), "equal route origins hash equally"); }
        assert!((a.cmp(&b) == Ordering::Equal) == eq, "cmp is Equal exactly for equal route origins");
        assert!(a.cmp(&b) == b.cmp(&a).reverse() && a.partial_cmp(&b) == Some(a.cmp(&b)), "cmp is antisymmetric and agrees with partial_cmp");
        let want = ka.0.order(&kb.0).then(ka.1.cmp(&kb.1)).then(ka.2.cmp(&kb.2));
        assert!(a.cmp(&b) == want, "route origins compare by prefix, then effective max length, then AS number");
        // the payload wrapper inherits the same laws
        let (pa, pb) = (Payload::origin(a.prefix, a.asn), Payload::from(b));
        assert!((pa == pb) == eq && (PayloadRef::from(a) == pb.as_ref()) == eq, "Payload / PayloadRef equality follows the origin's");
        if eq { assert!(h(&pa) == h(&pb) && h(&PayloadRef::from(a)) == h(&pb.as_ref()), "equal payloads hash equally"); }
    }}
}
//@end

//@append src/repository/resources/set.rs
#[cfg(any(kani, verif_replay))]
#[allow(dead_code, unused)]
mod verif_text_w_set {
    use super::*;
    use crate::repository::resources::{Addr, IpBlock, IpBlocks};
    use crate::resources::addr::verif_text_w_spec::*;
    use crate::verif_support::{assume, reach};
    use std::net::{Ipv4Addr, Ipv6Addr};

    fn as_view(b: &AsBlocks) -> Iv { b.iter().map(|x| (x.min().into_u32() as u128, x.max().into_u32() as u128)).collect() }
    fn ip_view(b: &IpBlocks) -> Iv { b.iter().map(|x| (x.min().to_bits(), x.max().to_bits())).collect() }
    fn as_blocks(v: &Iv) -> AsBlocks { v.iter().map(|b| AsBlock::from((Asn::from_u32(b.0 as u32), Asn::from_u32(b.1 as u32)))).collect() }
    fn ip_blocks(v: &Iv) -> IpBlocks { v.iter().map(|b| IpBlock::from((Addr::from_bits(b.0), Addr::from_bits(b.1)))).collect() }
    /// input text of an address; IPv6 always in hexadecimal groups (mixed notation "::ffff:1.2.3.4" is deliberately
    /// taken for IPv4 by the block parsers - nothing is demanded for it)
    fn addr_s(v4: bool, x: u128) -> String {
        if v4 { Ipv4Addr::from(x as u32).to_string() }
        else if x >> 32 == 0xffff { format!("::ffff:{:x}:{:x}", (x >> 16) & 0xffff, x & 0xffff) }
        else { Ipv6Addr::from(x).to_string() }
    }
    /// joins items with varying separators (spaces, empty items, leading / trailing separators)
    fn join(items: &[String], sep: u8) -> String {
        let mut t = String::new();
        if sep & 0x80 != 0 { t.push(' ') }
        for (i, it) in items.iter().enumerate() {
            if i > 0 { t.push_str([", ", ",", " , ", ",, "][(sep >> (2 * (i - 1)) & 3) as usize]) }
            t.push_str(it);
        }
        if sep & 0x40 != 0 { t.push_str(", ") }
        t
    }

    //@harness text_w_as_blocks W fn=AsBlocks::{from_str,fmt,serialize,deserialize,from_iter},AsBlock::{from_str,fmt},AsRange::fmt,AsResources::from_str,ResourceSet::from_strs n=80000 timeout=600
    verif_search!{ text_w_as_blocks; |n: u8, a0: u32, a1: u32, a2: u32, a3: u32, a4: u32, a5: u32, a6: u32, a7: u32, mode: u8, style: u8, inv: u8, sep: u8| {
        let raw = mk((n % 5) as usize, &[a0, a1, a2, a3, a4, a5, a6, a7], mode, 32);
        // text items: "AS1-AS5", "1-5", "as1-As5", single "AS7" / "7"; optionally with the bounds swapped
        let mut bad = false;
        let items: Vec<String> = raw.iter().enumerate().map(|(i, b)| {
            let (lo, hi) = if inv >> i & 1 != 0 && inv & 0x80 != 0 && b.0 != b.1 { bad = true; (b.1, b.0) } else { *b };
            match style >> (2 * i) & 3 {
                0 => format!("AS{}-AS{}", lo, hi),
                1 => format!("{}-{}", lo, hi),
                2 => format!("as{}-As{}", lo, hi),
                _ => if lo == hi { if style & 0x40 != 0 { format!("{}", lo) } else { format!("AS{}", lo) } } else { format!("AS{}-AS{}", lo, hi) },
            }
        }).collect();
        let text = join(&items, sep);
        let parsed = AsBlocks::from_str(&text);
        assert!(ResourceSet::from_strs(&text, "", "").is_ok() == parsed.is_ok(), "ResourceSet::from_strs accepts what AsBlocks::from_str accepts");
        if bad { assert!(parsed.is_err(), "a range with its lower bound above its upper bound is rejected"); return }
        // any order, overlapping, adjacent, repeated items: the canonical set of their union
        let blocks = match parsed { Ok(b) => b, Err(_) => { assert!(false, "well-formed AS block text is accepted"); return } };
        let want = norm(raw.clone());
        assert!(as_view(&blocks) == want, "parsed text denotes the canonical union of its items");
        assert!(blocks == as_blocks(&raw) && blocks == as_blocks(&want), "text, collected blocks and the canonical blocks give equal sets");
        assert!(ResourceSet::from_strs(&text, "", "").unwrap().asn() == &blocks, "ResourceSet::from_strs parses the AS part alike");
        // Display -> FromStr and serde give an equal set
        let t2 = blocks.to_string();
        let back = AsBlocks::from_str(&t2);
        assert!(back.is_ok() && back.as_ref().unwrap() == &blocks && as_view(back.as_ref().unwrap()) == want, "Display -> FromStr gives an equal set");
        assert!(AsResources::from_str(&t2).ok().and_then(|r| r.to_blocks().ok()).as_ref() == Some(&blocks), "AsResources::from_str reads the displayed blocks");
        let js = serde_json::to_string(&blocks).unwrap();
        let de = serde_json::from_str::<AsBlocks>(&js);
        assert!(de.is_ok() && de.as_ref().unwrap() == &blocks && as_view(de.as_ref().unwrap()) == want, "serde round trip gives an equal set");
    }}

    //@harness text_w_ip_blocks W fn=Ipv4Blocks::{from_str,fmt,serialize,deserialize},Ipv6Blocks::{from_str,fmt,serialize,deserialize},IpBlocks::{from_str,from_iter,as_v4,as_v6},IpBlocksForFamily::fmt,IpBlock::{from_v4_str,from_v6_str,fmt_v4,fmt_v6},AddressRange::{from_v4_str_sep,from_v6_str_sep,fmt_v4,fmt_v6},Prefix::{from_v4_str_sep,from_v6_str_sep,fmt_v4,fmt_v6},ResourceSet::from_strs n=120000 timeout=600
    verif_search!{ text_w_ip_blocks; |v4: bool, n: u8, a0: u32, a1: u32, a2: u32, a3: u32, a4: u32, a5: u32, a6: u32, a7: u32, mode: u8, kinds: u8, lens: [u8; 4], inv: u8, sep: u8| {
        let w: u32 = if v4 { 32 } else { 128 };
        let raw = mk((n % 5) as usize, &[a0, a1, a2, a3, a4, a5, a6, a7], mode, w);
        // text items: range "a-b" (optionally swapped), single address, prefix "a/len" (address as is or cleared)
        let (mut bad, mut lenient) = (false, false);
        let mut want: Iv = Vec::new();
        let items: Vec<String> = raw.iter().enumerate().map(|(i, b)| {
            match kinds >> (2 * i) & 3 {
                0 => {
                    let (lo, hi) = if inv >> i & 1 != 0 && inv & 0x80 != 0 && b.0 != b.1 { bad = true; (b.1, b.0) } else { *b };
                    want.push(*b);
                    format!("{}-{}", addr_s(v4, lo), addr_s(v4, hi))
                }
                1 => { want.push((b.0, b.0)); addr_s(v4, b.0) }
                k => {
                    let plen = lens[i] as u32 % (w + 2);
                    if plen > w { bad = true; return format!("{}/{}", addr_s(v4, b.1), plen) }
                    let lo = keep(b.1, w, plen);
                    let addr = if k == 3 { lo } else { b.1 };
                    if addr != lo { lenient = true }
                    want.push((lo, lo | lowmask(w - plen)));
                    format!("{}/{}", addr_s(v4, addr), plen)
                }
            }
        }).collect();
        if !v4 && !v6_text_safe(&want) { return }
        let text = join(&items, sep);
        let want = norm(if v4 { up4(&want) } else { want });
        // the family parser, the generic parser and ResourceSet::from_strs
        let fam: Result<IpBlocks, _> = if v4 { Ipv4Blocks::from_str(&text).map(|b| (*b).clone()) } else { Ipv6Blocks::from_str(&text).map(|b| (*b).clone()) };
        let generic = IpBlocks::from_str(&text);
        let rs = if v4 { ResourceSet::from_strs("", &text, "").map(|s| (**s.ipv4()).clone()) } else { ResourceSet::from_strs("", "", &text).map(|s| (**s.ipv6()).clone()) };
        if bad {
            assert!(fam.is_err() && generic.is_err() && rs.is_err(), "a range with its lower bound above its upper bound or a prefix longer than the family allows is rejected");
            return
        }
        if lenient && fam.is_err() { return }     // a prefix text with host bits set may be refused
        let blocks = match fam { Ok(b) => b, Err(_) => { assert!(false, "well-formed IP block text is accepted"); return } };
        assert!(ip_view(&blocks) == want, "parsed text denotes the canonical union of its items (a prefix denotes its whole range)");
        assert!(generic.is_ok() && generic.as_ref().unwrap() == &blocks && ip_view(generic.as_ref().unwrap()) == want, "IpBlocks::from_str reads the text alike");
        assert!(rs.is_ok() && rs.as_ref().unwrap() == &blocks, "ResourceSet::from_strs reads the text alike");
        assert!(blocks == ip_blocks(&want), "text and collected blocks give equal sets");
        if !raw.is_empty() {
            let other = if v4 { Ipv6Blocks::from_str(&text).is_err() } else { Ipv4Blocks::from_str(&text).is_err() };
            assert!(other, "the parser of the other family rejects the text");
        }
        // Display -> FromStr and serde give an equal set
        if v4 {
            let b4 = Ipv4Blocks::from(blocks.clone());
            let back = Ipv4Blocks::from_str(&b4.to_string());
            assert!(back.is_ok() && back.as_ref().unwrap() == &b4 && ip_view(back.as_ref().unwrap()) == want, "Display -> FromStr gives an equal IPv4 set");
            let g = IpBlocks::from_str(&blocks.as_v4().to_string());
            assert!(g.is_ok() && g.unwrap() == blocks, "as_v4 display -> IpBlocks::from_str gives an equal set");
            let de = serde_json::from_str::<Ipv4Blocks>(&serde_json::to_string(&b4).unwrap());
            assert!(de.is_ok() && de.as_ref().unwrap() == &b4 && ip_view(de.as_ref().unwrap()) == want, "serde round trip gives an equal IPv4 set");
        } else {
            let b6 = Ipv6Blocks::from(blocks.clone());
            let back = Ipv6Blocks::from_str(&b6.to_string());
            assert!(back.is_ok() && back.as_ref().unwrap() == &b6 && ip_view(back.as_ref().unwrap()) == want, "Display -> FromStr gives an equal IPv6 set");
            let g = IpBlocks::from_str(&blocks.as_v6().to_string());
            assert!(g.is_ok() && g.unwrap() == blocks, "as_v6 display -> IpBlocks::from_str gives an equal set");
            let de = serde_json::from_str::<Ipv6Blocks>(&serde_json::to_string(&b6).unwrap());
            assert!(de.is_ok() && de.as_ref().unwrap() == &b6 && ip_view(de.as_ref().unwrap()) == want, "serde round trip gives an equal IPv6 set");
        }
    }}

    fn two(p: &[u8], c: u8, mode: u8, bits: u32) -> Iv { mk((c % 3) as usize, &widen(p), mode, bits) }
    fn rset(a: &Iv, v4: &Iv, v6: &Iv) -> ResourceSet { ResourceSet::new(as_blocks(a), ip_blocks(&up4(v4)).into(), ip_blocks(v6).into()) }
    fn rview(s: &ResourceSet) -> (Iv, Iv, Iv) { (as_view(s.asn()), ip_view(s.ipv4()), ip_view(s.ipv6())) }

    //@harness text_w_resource_set W fn=ResourceSet::{new,contains,contains_asn,union,intersection,difference,is_empty,from_strs,fmt,serialize,deserialize},ResourceDiff::is_empty n=80000 timeout=600
    verif_search!{ text_w_resource_set; |e: [u8; 12], o: [u8; 12], cnt: u16, m_as: u8, m_4: u8, m_6: u8, x: u32| {
        let c = |k: u32| (cnt >> (2 * k) & 3) as u8;
        // two sets: per type up to two blocks in any order, from the same small scale so that they interact
        let (ea, e4, e6) = (two(&e[0..4], c(0), m_as, 32), two(&e[4..8], c(1), m_4, 32), two(&e[8..12], c(2), m_6, 128));
        let (oa, o4, o6) = (two(&o[0..4], c(3), m_as, 32), two(&o[4..8], c(4), m_4, 32), two(&o[8..12], c(5), m_6, 128));
        let (s, t) = (rset(&ea, &e4, &e6), rset(&oa, &o4, &o6));
        let (ea, e4, e6, oa, o4, o6) = (norm(ea), norm(up4(&e4)), norm(e6), norm(oa), norm(up4(&o4)), norm(o6));
        assert!(rview(&s) == (ea.clone(), e4.clone(), e6.clone()) && rview(&t) == (oa.clone(), o4.clone(), o6.clone()), "collected blocks denote the canonical union of the items");
        assert!(s.is_empty() == (ea.is_empty() && e4.is_empty() && e6.is_empty()), "is_empty == no resources of any type");
        assert!((s == t) == (ea == oa && e4 == o4 && e6 == o6), "== is equality of the three sets");
        assert!(s.contains(&t) == (subset(&oa, &ea) && subset(&o4, &e4) && subset(&o6, &e6)), "contains == the other set is a subset per type");
        let cat = |a: &Iv, b: &Iv| -> Iv { let mut v = a.clone(); v.extend(b.iter().cloned()); norm(v) };
        assert!(rview(&s.union(&t)) == (cat(&ea, &oa), cat(&e4, &o4), cat(&e6, &o6)), "union equals the mathematical union per type");
        assert!(rview(&s.intersection(&t)) == (inter(&ea, &oa), inter(&e4, &o4), inter(&e6, &o6)), "intersection equals the mathematical intersection per type");
        let d = s.difference(&t);
        assert!(rview(&d.added) == (diff(&ea, &oa), diff(&e4, &o4), diff(&e6, &o6)), "difference: added == self minus other per type");
        assert!(rview(&d.removed) == (diff(&oa, &ea), diff(&o4, &e4), diff(&o6, &e6)), "difference: removed == other minus self per type");
        assert!(d.is_empty() == (s == t), "the difference is empty exactly for equal sets");
        for p in [x, x % 24, u32::MAX - x % 24] { assert!(s.contains_asn(Asn::from_u32(p)) == has(&ea, p as u128), "contains_asn == membership"); }
        // text and serde forms of a result parse back to an equal set
        let u = s.union(&t);
        if v6_text_safe(&as_view_ip(u.ipv6())) {
            let back = ResourceSet::from_strs(&u.asn().to_string(), &u.ipv4().to_string(), &u.ipv6().to_string());
            assert!(back.is_ok() && back.as_ref().unwrap() == &u && rview(back.as_ref().unwrap()) == rview(&u), "the displayed parts parse back to an equal set");
            let de = serde_json::from_str::<ResourceSet>(&serde_json::to_string(&u).unwrap());
            assert!(de.is_ok() && de.as_ref().unwrap() == &u && rview(de.as_ref().unwrap()) == rview(&u), "serde round trip gives an equal set");
        }
    }}
    fn as_view_ip(b: &IpBlocks) -> Iv { ip_view(b) }
}
//@end

//@append src/ca/provisioning.rs
#[cfg(any(kani, verif_replay))]
#[allow(dead_code, unused)]
mod verif_text_w_limit {
    use super::*;
    use crate::repository::resources::{Addr, AsBlock, IpBlock, IpBlocks};
    use crate::resources::addr::verif_text_w_spec::*;
    use crate::resources::asn::Asn;
    use crate::verif_support::{assume, reach};

    fn as_view(b: &AsBlocks) -> Iv { b.iter().map(|x| (x.min().into_u32() as u128, x.max().into_u32() as u128)).collect() }
    fn ip_view(b: &IpBlocks) -> Iv { b.iter().map(|x| (x.min().to_bits(), x.max().to_bits())).collect() }
    fn as_blocks(v: &Iv) -> AsBlocks { v.iter().map(|b| AsBlock::from((Asn::from_u32(b.0 as u32), Asn::from_u32(b.1 as u32)))).collect() }
    fn ip_blocks(v: &Iv) -> IpBlocks { v.iter().map(|b| IpBlock::from((Addr::from_bits(b.0), Addr::from_bits(b.1)))).collect() }
    /// a limit for one type: none, the empty set, a part of the entitled set, anything
    fn pick(sel: u8, entitled: &Iv, other: &Iv) -> Option<Iv> {
        match sel % 4 { 0 => None, 1 => Some(Vec::new()), 2 => Some(inter(entitled, other)), _ => Some(norm(other.clone())) }
    }

    //@harness text_w_limit W fn=RequestResourceLimit::{apply_to,is_empty,with_asn,with_ipv4,with_ipv6,serialize,deserialize_asn,deserialize_ipv4,deserialize_ipv6} n=80000 timeout=600
    verif_search!{ text_w_limit; |e: [u8; 12], o: [u8; 12], cnt: u16, sel: u8, m_as: u8, m_4: u8, m_6: u8| {
        let c = |k: u32| (cnt >> (2 * k) & 3) as usize % 3;
        // the entitled set and, per type, a candidate limit from the same scale
        let (ea, e4, e6) = (norm(mk(c(0), &widen(&e[0..4]), m_as, 32)), norm(up4(&mk(c(1), &widen(&e[4..8]), m_4, 32))), norm(mk(c(2), &widen(&e[8..12]), m_6, 128)));
        let (oa, o4, o6) = (mk(c(3), &widen(&o[0..4]), m_as, 32), up4(&mk(c(4), &widen(&o[4..8]), m_4, 32)), mk(c(5), &widen(&o[8..12]), m_6, 128));
        let set = ResourceSet::new(as_blocks(&ea), ip_blocks(&e4).into(), ip_blocks(&e6).into());
        let (la, l4, l6) = (pick(sel, &ea, &oa), pick(sel >> 2, &e4, &o4), pick(sel >> 4, &e6, &o6));
        let mut limit = RequestResourceLimit::new();
        if let Some(l) = &la { limit.with_asn(as_blocks(l)) }
        if let Some(l) = &l4 { limit.with_ipv4(ip_blocks(l).into()) }
        if let Some(l) = &l6 { limit.with_ipv6(ip_blocks(l).into()) }
        assert!(limit.asn().map(as_view) == la && limit.ipv4().map(|b| ip_view(b)) == l4 && limit.ipv6().map(|b| ip_view(b)) == l6, "the limit holds what it was given (an empty set stays an explicit limit)");
        // a given limit must be covered by the entitled set; the result is the limit where given, else the entitled set
        let fits = la.as_ref().map_or(true, |l| subset(l, &ea)) && l4.as_ref().map_or(true, |l| subset(l, &e4)) && l6.as_ref().map_or(true, |l| subset(l, &e6));
        match limit.apply_to(&set) {
            Ok(r) => {
                assert!(fits, "a limit exceeding the entitled set is an error");
                assert!(as_view(r.asn()) == la.clone().unwrap_or(ea.clone()), "AS numbers: the limit where one is given (empty means nothing), else the entitled set");
                assert!(ip_view(r.ipv4()) == l4.clone().unwrap_or(e4.clone()), "IPv4: the limit where one is given (empty means nothing), else the entitled set");
                assert!(ip_view(r.ipv6()) == l6.clone().unwrap_or(e6.clone()), "IPv6: the limit where one is given (empty means nothing), else the entitled set");
                assert!(set.contains(&r), "the result is covered by the entitled set");
            }
            Err(_) => assert!(!fits, "a limit within the entitled set is applied"),
        }
        // serde form parses back to an equal limit
        if l6.as_ref().map_or(true, |l| v6_text_safe(l)) {
            let de = serde_json::from_str::<RequestResourceLimit>(&serde_json::to_string(&limit).unwrap());
            assert!(de.is_ok() && de.unwrap() == limit, "serde round trip gives an equal limit (absent stays absent, empty stays empty)");
        }
    }}
}
//@end
