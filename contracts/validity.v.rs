// Unit validity (C01 validity clause, C17 validity clause): Time::verify_not_before/after,
// Validity::{new, not_before, not_after, trim, verify_at} of src/repository/x509.rs.
// chrono::DateTime<Utc> is an opaque stand-in carrying an abstract instant at(t): int
// (think nanoseconds since the epoch).
use vstd::prelude::*;
use vstd::std_specs::cmp::*;
use core::cmp::Ordering;
use std::cmp::{min, max};

verus! {

pub open spec fn int_cmp(a: int, b: int) -> Ordering {
    if a < b { Ordering::Less } else if a == b { Ordering::Equal } else { Ordering::Greater }
}

// ---- assumed: std ---------------------------------------------------------------------------
pub assume_specification<T: Ord> [ core::cmp::min::<T> ] (a: T, b: T) -> (r: T)
    ensures T::obeys_cmp_spec() ==> r == (if a.cmp_spec(&b) == Ordering::Greater { b } else { a });
pub assume_specification<T: Ord> [ core::cmp::max::<T> ] (a: T, b: T) -> (r: T)
    ensures T::obeys_cmp_spec() ==> r == (if a.cmp_spec(&b) == Ordering::Greater { a } else { b });

// ---- assumed: chrono ------------------------------------------------------------------------
pub struct Utc;
/// opaque stand-in for chrono::DateTime<Tz>
#[verifier::external_body]
#[verifier::reject_recursive_types(Tz)]
pub struct DateTime<Tz> { _o: u8, _p: core::marker::PhantomData<Tz> }
/// the instant a DateTime<Utc> denotes, in nanoseconds on the UTC time line
pub uninterp spec fn at(t: DateTime<Utc>) -> int;

impl Clone for DateTime<Utc> {
    #[verifier::external_body]
    fn clone(&self) -> (r: Self) ensures r == *self { unimplemented!() }
}
impl Copy for DateTime<Utc> {}
impl PartialEq for DateTime<Utc> {
    #[verifier::external_body]
    fn eq(&self, other: &Self) -> (r: bool) { unimplemented!() }
}
impl Eq for DateTime<Utc> {}
impl PartialOrd for DateTime<Utc> {
    #[verifier::external_body]
    fn partial_cmp(&self, other: &Self) -> (r: Option<Ordering>) { unimplemented!() }
}
impl Ord for DateTime<Utc> {
    #[verifier::external_body]
    fn cmp(&self, other: &Self) -> (r: Ordering) { unimplemented!() }
}
impl DateTime<Utc> {
    /// ASSUMED CONTRACT of chrono: whole seconds since the epoch, rounded towards minus infinity
    #[verifier::external_body]
    pub fn timestamp(&self) -> (r: i64) ensures r as int == at(*self) / 1_000_000_000 { unimplemented!() }
}

// ---- the types under contract -----------------------------------------------------------------
//@item src/repository/x509.rs :: pub struct Time pubfields keepderive=Clone,Copy,Eq,Ord,PartialEq,PartialOrd
//@item src/repository/x509.rs :: pub struct Validity pubfields keepderive=Clone,Copy
//@item src/repository/x509.rs :: pub struct ValidityPeriodError pubfields keepderive=Clone,Copy

pub mod ax {
    use super::*;
    /// ASSUMED CONTRACT of chrono: ==, PartialOrd and Ord of DateTime<Utc> are equality / order of
    /// the instant (chrono compares the UTC NaiveDateTime)
    #[verifier::external_body]
    pub broadcast proof fn axiom_chrono_ord()
        ensures
            #[trigger] <DateTime<Utc> as OrdSpec>::obeys_cmp_spec(),
            #[trigger] <DateTime<Utc> as PartialOrdSpec>::obeys_partial_cmp_spec(),
            #[trigger] <DateTime<Utc> as PartialEqSpec>::obeys_eq_spec(),
            forall|a: DateTime<Utc>, b: DateTime<Utc>| #[trigger] a.cmp_spec(&b) == int_cmp(at(a), at(b)),
            forall|a: DateTime<Utc>, b: DateTime<Utc>| #[trigger] a.partial_cmp_spec(&b) == Some(int_cmp(at(a), at(b))),
            forall|a: DateTime<Utc>, b: DateTime<Utc>| #[trigger] a.eq_spec(&b) == (at(a) == at(b)),
    {}
    /// derive(PartialEq, Eq, PartialOrd, Ord) on `struct Time(DateTime<Utc>)` compares the single
    /// field (rustc's derive expansion is trusted)
    #[verifier::external_body]
    pub broadcast proof fn axiom_time_derived_ord()
        ensures
            #[trigger] <Time as OrdSpec>::obeys_cmp_spec(),
            #[trigger] <Time as PartialOrdSpec>::obeys_partial_cmp_spec(),
            #[trigger] <Time as PartialEqSpec>::obeys_eq_spec(),
            forall|a: Time, b: Time| #[trigger] a.cmp_spec(&b) == int_cmp(at(a.0), at(b.0)),
            forall|a: Time, b: Time| #[trigger] a.partial_cmp_spec(&b) == Some(int_cmp(at(a.0), at(b.0))),
            forall|a: Time, b: Time| #[trigger] a.eq_spec(&b) == (at(a.0) == at(b.0)),
    {}
}

// ---- specification vocabulary -----------------------------------------------------------------
/// the instant of a Time
pub open spec fn tat(t: Time) -> int { at(t.0) }
// `in_window` -- shared with the units that assume Validity::verify_at through a contract link
//@include shared/time_vocab.v.rs

impl ValidityPeriodError {
    //@fn src/repository/x509.rs :: impl ValidityPeriodError :: too_new
    //@spec
        ensures r.too_new,
    //@/spec
    //@end
    //@fn src/repository/x509.rs :: impl ValidityPeriodError :: too_old
    //@spec
        ensures !r.too_new,
    //@/spec
    //@end
}

impl Time {
    //@fn src/repository/x509.rs :: impl Time :: new
    //@spec
        ensures r.0 == dt,
    //@/spec
    //@end

    //@fn src/repository/x509.rs :: impl Time :: verify_not_before
    //@spec
        ensures
            r.is_ok() <==> tat(*self) <= tat(now),
            r matches Err(e) ==> e.too_new,
    //@/spec
    //@ghost begin
        proof { broadcast use ax::axiom_chrono_ord, ax::axiom_time_derived_ord; }
    //@/ghost
    //@end

    //@fn src/repository/x509.rs :: impl Time :: verify_not_after
    //@spec
        ensures
            r.is_ok() <==> tat(now) <= tat(*self),
            r matches Err(e) ==> !e.too_new,
    //@/spec
    //@ghost begin
        proof { broadcast use ax::axiom_chrono_ord, ax::axiom_time_derived_ord; }
    //@/ghost
    //@end
}

impl Validity {
    //@fn src/repository/x509.rs :: impl Validity :: new
    //@spec
        ensures r.not_before == not_before, r.not_after == not_after,
    //@/spec
    //@end

    //@fn src/repository/x509.rs :: impl Validity :: not_before
    //@spec
        ensures r == self.not_before,
    //@/spec
    //@end

    //@fn src/repository/x509.rs :: impl Validity :: not_after
    //@spec
        ensures r == self.not_after,
    //@/spec
    //@end

    //@fn src/repository/x509.rs :: impl Validity :: trim
    //@spec
        ensures
            // the result window is the intersection of the two windows
            forall|t: int| #![trigger in_window(r, t)] in_window(r, t) <==> (in_window(self, t) && in_window(other, t)),
            // ... with not_before the later of the two and not_after the earlier, taken from the inputs
            r.not_before == self.not_before || r.not_before == other.not_before,
            r.not_after == self.not_after || r.not_after == other.not_after,
            tat(r.not_before) >= tat(self.not_before), tat(r.not_before) >= tat(other.not_before),
            tat(r.not_after) <= tat(self.not_after), tat(r.not_after) <= tat(other.not_after),
    //@/spec
    //@ghost begin
        proof { broadcast use ax::axiom_chrono_ord, ax::axiom_time_derived_ord; }
    //@/ghost
    //@end

    //@fn src/repository/x509.rs :: impl Validity :: verify_at
    //@spec
        ensures
            r.is_ok() <==> in_window(self, tat(now)),
            r matches Err(e) ==> (e.too_new <==> tat(now) < tat(self.not_before)),
    //@/spec
    //@end
}

// ---- consequences stated by the property --------------------------------------------------------
/// trimming commutes with acceptance: an instant is accepted by trim(a, b) iff by both
proof fn lemma_trim_accepts(a: Validity, b: Validity, r: Validity, t: int)
    requires forall|x: int| #![trigger in_window(r, x)] in_window(r, x) <==> (in_window(a, x) && in_window(b, x)),
    ensures in_window(r, t) == (in_window(a, t) && in_window(b, t)),
{}

/// moving the evaluation time out of the window (either side) turns acceptance into rejection
proof fn lemma_single_point_change(v: Validity, t: int)
    ensures
        t < tat(v.not_before) ==> !in_window(v, t),
        t > tat(v.not_after) ==> !in_window(v, t),
{}

// ---- vacuity guard ---------------------------------------------------------------------------------
/// a window [t, t] accepts t: the contracts are satisfiable, and a non-empty window exists
proof fn reach_validity(t: Time)
    ensures in_window(Validity { not_before: t, not_after: t }, tat(t)),
{}

} // verus!
fn main() {}
