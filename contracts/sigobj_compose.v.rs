// Unit sigobj_compose (C02): the composition functions of src/repository/sigobj.rs --
// SignedObject::{inspect, verify, validate_at, validate, process} -- against the statement
// "accepted under an issuer EXACTLY when  sid == EE cert's subject key identifier  and
//  message-digest attribute == SHA-256(content)  and  the signature verifies over the DER SET OF
//  encoding of the signed attributes under the EE certificate's key  and  the EE certificate
//  validates under the issuer (C01); the CRL callback's verdict is honoured".
//
// Crypto (SHA-256, signature verification) and bcder/bytes containers are abstract: every unknown is
// universally quantified.  The EE certificate validation (Cert::validate_ee_at, C01) and
// SignedAttrs::encode_verify are used through contract links (//@stub) to the units that prove them
// (cert_compose, sigattrs); the C01 predicates they mention are uninterpreted here.  The struct
// definitions (SignedObject, Cert, TbsCert, ResourceCert, MessageDigest, SignedAttrs, Signature,
// the digest Context) and the accessor bodies are the real text of /repo.
use vstd::prelude::*;
use vstd::std_specs::cmp::*;
use vstd::std_specs::convert::*;
use std::sync::Arc;
use core::ops;

verus! {

// ================================================================================================
// environment: external dependencies (opaque stand-ins + assumed contracts)
// ================================================================================================

// ---- bytes / bcder -------------------------------------------------------------------------------
/// opaque stand-in for bytes::Bytes
#[verifier::external_body]
pub struct Bytes { _o: u8 }
pub uninterp spec fn bytes_view(b: Bytes) -> Seq<u8>;
impl Bytes {
    /// bytes: `impl AsRef<[u8]> for Bytes` returns the octets (assumed)
    #[verifier::external_body]
    pub fn as_ref(&self) -> (r: &[u8])
        ensures r@ == bytes_view(*self)
    { unimplemented!() }
}

// bcder::Captured (stand-in + `captured_view`), `der_len`, `set_of_encoding`, `SignedAttrs::view`: the
// vocabulary of SignedAttrs::encode_verify, shared with unit sigattrs which proves it
//@include shared/cms_vocab.v.rs
/// opaque stand-in for bcder::OctetString (primitive or constructed encoding)
#[verifier::external_body]
pub struct OctetString { _o: u8 }
/// the content octets of the octet string (concatenation of its fragments)
pub uninterp spec fn os_view(o: OctetString) -> Seq<u8>;
/// opaque stand-in for bcder::string::OctetStringIter (yields the fragments as `&[u8]`)
#[verifier::external_body]
pub struct OctetStringIter<'a> { _o: &'a u8 }
/// concatenation of the fragments the iterator will still yield
pub uninterp spec fn osi_octets(it: OctetStringIter) -> Seq<u8>;
impl OctetString {
    /// bcder: the fragments yielded by iter() concatenate to the content (assumed)
    #[verifier::external_body]
    pub fn iter(&self) -> (r: OctetStringIter<'_>)
        ensures osi_octets(r) == os_view(*self)
    { unimplemented!() }
    /// bcder: derive(Clone) keeps the content (assumed)
    #[verifier::external_body]
    pub fn clone(&self) -> (r: Self)
        ensures os_view(r) == os_view(*self)
    { unimplemented!() }
    /// bcder: into_bytes() returns the content octets (assumed)
    #[verifier::external_body]
    pub fn into_bytes(self) -> (r: Bytes)
        ensures bytes_view(r) == os_view(self)
    { unimplemented!() }
}

/// opaque stand-in for bcder::Oid<T>
#[verifier::external_body]
#[verifier::reject_recursive_types(T)]
pub struct Oid<T> { _o: core::marker::PhantomData<T> }

// ---- aws-lc-rs digest ----------------------------------------------------------------------------
/// SHA-256 as a mathematical function (abstract)
pub uninterp spec fn sha256(data: Seq<u8>) -> Seq<u8>;

pub mod digest {
    use super::*;
    /// opaque stand-in for aws_lc_rs::digest::Context
    #[verifier::external_body]
    pub struct Context { _o: u8 }
    /// the octets fed into the context so far
    pub uninterp spec fn ctx_data(c: Context) -> Seq<u8>;
    /// opaque stand-in for aws_lc_rs::digest::Digest
    #[verifier::external_body]
    pub struct Digest { _o: u8 }
    pub uninterp spec fn digest_view(d: Digest) -> Seq<u8>;
    impl Context {
        /// aws-lc: update appends the data to the hashed message (assumed)
        #[verifier::external_body]
        pub fn update(&mut self, data: &[u8])
            ensures ctx_data(*final(self)) == ctx_data(*old(self)) + data@
        { unimplemented!() }
        /// aws-lc: a SHA-256 context finishes to SHA-256 of everything fed (assumed; rpki-rs only
        /// creates SHA-256 contexts in DigestAlgorithm::start)
        #[verifier::external_body]
        pub fn finish(self) -> (r: Digest)
            ensures digest_view(r) == sha256(ctx_data(self))
        { unimplemented!() }
    }
    impl Digest {
        /// aws-lc: `impl AsRef<[u8]> for Digest` returns the digest octets (assumed)
        #[verifier::external_body]
        pub fn as_ref(&self) -> (r: &[u8])
            ensures r@ == digest_view(*self)
        { unimplemented!() }
    }
}
pub use digest::Digest;

// ---- std: slice comparison -----------------------------------------------------------------------
pub mod ax {
    use super::*;
    /// std: `impl PartialEq<[B]> for [A]` is element-wise equality; for u8 that is equality of the
    /// octet sequences (assumed; vstd forwards `&[u8] == &[u8]` to it)
    #[verifier::external_body]
    pub broadcast proof fn axiom_u8_slice_eq(a: &[u8], b: &[u8])
        ensures #[trigger] <[u8] as PartialEqSpec<[u8]>>::eq_spec(a, b) == (a@ == b@) {}
    #[verifier::external_body]
    pub broadcast proof fn axiom_u8_slice_eq_obeys()
        ensures #[trigger] <[u8] as PartialEqSpec<[u8]>>::obeys_eq_spec() {}
    /// derive(PartialEq) added to KeyIdentifier([u8; 20]) in place of the hand-written generic
    /// `impl<T: AsRef<[u8]>> PartialEq<T> for KeyIdentifier` (`self.0.as_ref().eq(other.as_ref())`):
    /// both compare the 20 octets (assumed; Kani harness key_identifier_eq of unit slurm)
    #[verifier::external_body]
    pub broadcast proof fn axiom_ki_eq_obeys()
        ensures #[trigger] <KeyIdentifier as PartialEqSpec>::obeys_eq_spec() {}
    #[verifier::external_body]
    pub broadcast proof fn axiom_ki_eq(a: KeyIdentifier, b: KeyIdentifier)
        ensures #[trigger] a.eq_spec(&b) == (a == b) {}
}
broadcast use {ax::axiom_u8_slice_eq, ax::axiom_u8_slice_eq_obeys, ax::axiom_ki_eq_obeys, ax::axiom_ki_eq};

// ================================================================================================
// environment: rpki-rs types of other modules
// ================================================================================================

// ---- crypto ------------------------------------------------------------------------------------
//@item src/crypto/keys.rs :: pub struct KeyIdentifier pubfields keepderive=Clone,Copy,Eq addderive=PartialEq
//@item src/crypto/digest.rs :: pub struct DigestAlgorithm pubfields keepderive=Clone,Copy
//@item src/crypto/digest.rs :: pub struct Context pubfields
//@item src/crypto/signature.rs :: pub struct Signature<Alg> pubfields

/// opaque stand-in for crypto::signature::RpkiSignatureAlgorithm
#[verifier::external_body]
pub struct RpkiSignatureAlgorithm { _o: u8 }
pub type RpkiSignature = Signature<RpkiSignatureAlgorithm>;

impl DigestAlgorithm {
    /// crypto/digest.rs: `Context(digest::Context::new(&digest::SHA256))` -- a fresh aws-lc SHA-256
    /// context, nothing fed yet (assumed: aws-lc constructor behind a `static`)
    #[verifier::external_body]
    pub fn start(self) -> (r: Context)
        ensures digest::ctx_data(r.0) == Seq::<u8>::empty()
    { unimplemented!() }
}
impl Context {
    //@fn src/crypto/digest.rs :: impl Context :: update
    //@spec
        ensures digest::ctx_data(final(self).0) == digest::ctx_data(old(self).0) + data@,
    //@/spec
    //@end
    //@fn src/crypto/digest.rs :: impl Context :: finish
    //@spec
        ensures digest::digest_view(r) == sha256(digest::ctx_data(self.0)),
    //@/spec
    //@end
}

impl OctetStringIter<'_> {
    /// R12 stand-in for `<iterator>.for_each(|x| context.update(x))`: Verus has no model of
    /// Iterator::for_each and rejects a closure that captures `&mut context`.  Contract (assumed):
    /// std's for_each calls the closure on every fragment in order; with Context::update's contract
    /// that appends the concatenation of the fragments.
    #[verifier::external_body]
    pub fn for_each_update(self, context: &mut Context)
        ensures digest::ctx_data(final(context).0) == digest::ctx_data(old(context).0) + osi_octets(self)
    { unimplemented!() }
}

/// opaque stand-in for crypto::keys::PublicKey (algorithm + BIT STRING)
#[verifier::external_body]
pub struct PublicKey { _o: u8 }
/// opaque stand-in for crypto::keys::SignatureVerificationError (a unit struct)
#[verifier::external_body]
pub struct SignatureVerificationError { _o: u8 }
// `sig_ok(key, msg, sig)`: "signature `sig` (algorithm identifier and value) verifies over `msg` under `key`",
// including the algorithm-match prelude of PublicKey::verify -- abstract here, DEFINED in unit key_verify
// (format match && aws-lc primitive), which proves the linked contract
//@include shared/sig_vocab.v.rs
impl SignatureAlgorithm for RpkiSignatureAlgorithm { }
impl PublicKey {
    /// contract link: crypto/keys.rs PublicKey::verify (algorithm check + dispatch to the aws-lc primitive), proved
    /// in unit key_verify; the requires/ensures text is taken from there
    //@stub key_verify :: impl PublicKey :: verify
    pub fn verify<Alg: SignatureAlgorithm>(&self, message: &[u8], signature: &Signature<Alg>) -> (r: Result<(), SignatureVerificationError>)
    //@end
}

// ---- x509 / uri / resources: field types of TbsCert that play no role here --------------------
/// opaque stand-in for x509::Time (chrono DateTime<Utc>)
#[verifier::external_body]
#[derive(Clone, Copy)]
pub struct Time { _o: u8 }
impl Time {
    /// chrono Utc::now(): some instant (assumed: returns)
    #[verifier::external_body]
    pub fn now() -> (r: Time) { unimplemented!() }
}
#[verifier::external_body]
pub struct Serial { _o: u8 }
#[verifier::external_body]
pub struct Name { _o: u8 }
#[verifier::external_body]
pub struct Validity { _o: u8 }
#[verifier::external_body]
pub struct ExtendedKeyUsage { _o: u8 }
#[verifier::external_body]
pub struct SignedData { _o: u8 }
#[verifier::external_body]
pub struct IpResources { _o: u8 }
#[verifier::external_body]
pub struct AsResources { _o: u8 }
#[verifier::external_body]
pub struct IpBlocks { _o: u8 }
#[verifier::external_body]
pub struct AsBlocks { _o: u8 }
#[verifier::external_body]
pub struct TalInfo { _o: u8 }
pub mod uri {
    #[allow(unused_imports)] use super::*;
    #[verifier::external_body]
    pub struct Rsync { _o: u8 }
    #[verifier::external_body]
    pub struct Https { _o: u8 }
}

// ---- repository::error ---------------------------------------------------------------------------
/// opaque stand-in for bcder::decode::ContentError
#[verifier::external_body]
pub struct ContentError { _o: u8 }
impl From<&'static str> for ContentError {
    /// bcder: `impl From<&'static str> for ContentError` (assumed: returns)
    #[verifier::external_body]
    fn from(msg: &'static str) -> Self { unimplemented!() }
}
impl From<SignatureVerificationError> for ContentError {
    /// crypto/keys.rs: `ContentError::from_static("signature verification failed")` (assumed: returns)
    #[verifier::external_body]
    fn from(err: SignatureVerificationError) -> Self { unimplemented!() }
}
/// opaque stand-in for bcder::decode::DecodeError<Infallible>
#[verifier::external_body]
pub struct DecodeErrorInfallible { _o: u8 }

//@item src/repository/error.rs :: pub struct InspectionError pubfields
//@item src/repository/error.rs :: pub struct VerificationError pubfields
//@item src/repository/error.rs :: pub struct ValidationError pubfields
//@item src/repository/error.rs :: enum ValidationErrorKind pubfields sub "DecodeError<Infallible>" "DecodeErrorInfallible"

impl InspectionError {
    //@fn src/repository/error.rs :: impl InspectionError :: new
    //@sigsub R12 "err: impl Into<ContentError>" "err: &'static str"
    //@end
}
impl VerificationError {
    //@fn src/repository/error.rs :: impl VerificationError :: new
    //@sigsub R12 "err: impl Into<ContentError>" "err: &'static str"
    //@end
}
impl FromSpecImpl<ContentError> for VerificationError {
    open spec fn obeys_from_spec() -> bool { true }
    open spec fn from_spec(err: ContentError) -> Self { VerificationError { inner: err } }
}
impl From<ContentError> for VerificationError {
    //@fn src/repository/error.rs :: impl From<ContentError> for VerificationError :: from
    //@end
}
impl FromSpecImpl<SignatureVerificationError> for VerificationError {
    open spec fn obeys_from_spec() -> bool { false }
    open spec fn from_spec(err: SignatureVerificationError) -> Self { arbitrary() }
}
impl From<SignatureVerificationError> for VerificationError {
    //@fn src/repository/error.rs :: impl From<SignatureVerificationError> for VerificationError :: from
    //@end
}
impl FromSpecImpl<InspectionError> for ValidationError {
    open spec fn obeys_from_spec() -> bool { true }
    open spec fn from_spec(err: InspectionError) -> Self { ValidationError { inner: ValidationErrorKind::Inspection(err) } }
}
impl From<InspectionError> for ValidationError {
    //@fn src/repository/error.rs :: impl From<InspectionError> for ValidationError :: from
    //@end
}
impl FromSpecImpl<VerificationError> for ValidationError {
    open spec fn obeys_from_spec() -> bool { true }
    open spec fn from_spec(err: VerificationError) -> Self { ValidationError { inner: ValidationErrorKind::Verification(err) } }
}
impl From<VerificationError> for ValidationError {
    //@fn src/repository/error.rs :: impl From<VerificationError> for ValidationError :: from
    //@end
}

// ---- repository::cert ------------------------------------------------------------------------------
//@item src/repository/cert.rs :: pub enum KeyUsage keepderive=Clone,Copy
//@item src/repository/cert.rs :: pub enum Overclaim keepderive=Clone,Copy
//@item src/repository/cert.rs :: pub struct TbsCert pubfields
//@item src/repository/cert.rs :: pub struct Cert pubfields
//@item src/repository/cert.rs :: pub struct ResourceCert pubfields

impl TbsCert {
    //@fn src/repository/cert.rs :: impl TbsCert :: subject_public_key_info
    //@spec
        ensures *r == self.subject_public_key_info,
    //@/spec
    //@end
    //@fn src/repository/cert.rs :: impl TbsCert :: subject_key_identifier
    //@spec
        ensures r == self.subject_key_identifier,
    //@/spec
    //@end
}
impl ops::Deref for Cert {
    type Target = TbsCert;
    //@fn src/repository/cert.rs :: impl ops::Deref for Cert :: deref
    //@spec
        ensures *r == self.tbs,
    //@/spec
    //@end
}

// ---- C01 vocabulary: abstract here, defined in unit cert_compose, which proves Cert::validate_ee_at ----
/// Cert::inspect_ee accepts the certificate (the syntactic EE profile)
pub uninterp spec fn inspect_ee_ok(c: Cert, strict: bool) -> bool;
/// validity window at `now`, issuer claim (AKI == issuer's SKI) and signature under the issuer's key
pub uninterp spec fn issued_basic_ok(c: Cert, issuer: ResourceCert, now: Time) -> bool;
/// all three resource sets of the certificate can be issued by the issuer
pub uninterp spec fn resources_ok(c: Cert, issuer: ResourceCert) -> bool;
/// the three resource sets attached to rc are the ones c validly receives from issuer
pub uninterp spec fn issued_resources(rc: ResourceCert, c: Cert, issuer: ResourceCert) -> bool;
/// the resource chain is in canonical form (defined in unit res_sets; established by decoding through
/// FromIterator and preserved by validation)
pub uninterp spec fn ip_wf(b: IpBlocks) -> bool;
pub uninterp spec fn as_wf(b: AsBlocks) -> bool;
/// the decoded resource extensions of a certificate are in canonical form
pub uninterp spec fn cert_res_wf(c: Cert) -> bool;
// `issued_result`, `rc_wf` -- shared with unit cert_compose
//@include shared/cert_vocab.v.rs

/// "the EE certificate `cert` validates under `issuer` at `now`" (property C01, decided by unit
/// cert_compose): the acceptance condition of Cert::validate_ee_at
pub open spec fn ee_valid(cert: Cert, issuer: ResourceCert, strict: bool, now: Time) -> bool {
    inspect_ee_ok(cert, strict) && issued_basic_ok(cert, issuer, now) && resources_ok(cert, issuer)
}

impl Cert {
    /// contract link: Cert::validate_ee_at (cert.rs:246) = inspect_ee + verify_ee_at, proved in unit
    /// cert_compose (C01); the requires/ensures text is taken from there
    //@stub cert_compose :: impl Cert :: validate_ee_at
    pub fn validate_ee_at(self, issuer: &ResourceCert, strict: bool, now: Time) -> (r: Result<ResourceCert, ValidationError>)
    //@end
}
impl ResourceCert {
    //@fn src/repository/cert.rs :: impl ResourceCert :: as_cert
    //@spec
        ensures *r == self.cert,
    //@/spec
    //@end
    //@fn src/repository/cert.rs :: impl AsRef<Cert> for ResourceCert :: as_ref as=as_ref
    //@spec
        ensures *r == self.cert,
    //@/spec
    //@end
}

// ================================================================================================
// the unit: src/repository/sigobj.rs
// ================================================================================================
//@item src/repository/sigobj.rs :: pub struct SignedAttrs pubfields
//@item src/repository/sigobj.rs :: pub struct MessageDigest pubfields
//@item src/repository/sigobj.rs :: pub struct SignedObject pubfields

// ---- specification -----------------------------------------------------------------------------
// (`der_len`, `set_of_encoding`: shared/cms_vocab.v.rs)

/// item 1c of RFC 6488 section 3: signer identifier == subject key identifier of the EE certificate
pub open spec fn sid_matches(o: SignedObject) -> bool {
    o.sid == o.cert.tbs.subject_key_identifier
}
/// message-digest attribute == SHA-256 of the content
pub open spec fn digest_matches(o: SignedObject) -> bool {
    bytes_view(o.message_digest.0) == sha256(os_view(o.content))
}
/// the signature verifies over the SET OF encoding of the signed attributes under the EE cert's key
pub open spec fn signature_verifies(o: SignedObject) -> bool {
    sig_ok(o.cert.tbs.subject_public_key_info, set_of_encoding(captured_view(o.signed_attrs.0)), o.signature)
}
/// The property statement: the object is accepted under `issuer` at `now` exactly when all four
/// conditions hold (and then yields the validated EE certificate: `outcome_is`).
pub open spec fn accepted(o: SignedObject, issuer: ResourceCert, strict: bool, now: Time) -> bool {
    sid_matches(o) && digest_matches(o) && signature_verifies(o) && ee_valid(o.cert, issuer, strict, now)
}
/// the EE certificate carried by the object
pub open spec fn ee_cert_of(o: SignedObject) -> Cert { o.cert }
// `outcome_is(r, acc, o, issuer)`: r is Ok exactly when acc, and then the EE certificate of o validated
// under the issuer -- shared with unit roa_aspa_verify, which assumes SignedObject::validate through a link
//@include shared/sigobj_vocab.v.rs
/// established by decoding: SignedAttrs::take_from_with_mode rejects more than 65535 octets, and the
/// resource extensions of the EE certificate are built through FromIterator (canonical chains; this is
/// the precondition of the linked Cert::validate_ee_at contract)
pub open spec fn wf(o: SignedObject) -> bool {
    captured_view(o.signed_attrs.0).len() <= 0xFFFF
    && cert_res_wf(o.cert)
}
/// outcome of `process` given the verdict `acc` of the acceptance predicate
pub open spec fn process_outcome<F: FnOnce(&Cert) -> Result<(), ValidationError>>(
    r: Result<(ResourceCert, Bytes), ValidationError>, o: SignedObject, issuer: ResourceCert, check_crl: F, acc: bool
) -> bool {
    if !acc {
        // not accepted: rejected, whatever the callback would say
        r is Err
    } else {
        // accepted: the callback is consulted on the EE certificate and its verdict is the result
        match r {
            Ok((cert, octets)) => issued_result(cert, o.cert, issuer) && rc_wf(cert) && bytes_view(octets) == os_view(o.content)
                && check_crl.ensures((&o.cert,), Ok(())),
            Err(e) => check_crl.ensures((&o.cert,), Err(e)),
        }
    }
}

impl SignedAttrs {
    /// contract link: proved in unit sigattrs (same property C02), text taken from there
    //@stub sigattrs :: impl SignedAttrs :: encode_verify
    pub fn encode_verify(&self) -> (r: Vec<u8>)
    //@end
}

impl MessageDigest {
    //@fn src/repository/sigobj.rs :: impl AsRef<[u8]> for MessageDigest :: as_ref as=as_ref
    //@spec
        ensures r@ == bytes_view(self.0),
    //@/spec
    //@end
}

impl SignedObject {
    //@fn src/repository/sigobj.rs :: impl SignedObject :: inspect
    //@spec
        ensures
            r is Ok <==> sid_matches(*self),
    //@/spec
    //@end

    //@fn src/repository/sigobj.rs :: impl SignedObject :: verify
    //@sub R12 ".for_each(|x| context.update(x))" ".for_each_update(&mut context)"
    //@spec
        requires
            wf(*self),
        ensures
            r is Ok <==> digest_matches(*self) && signature_verifies(*self),
    //@/spec
    //@end

    //@fn src/repository/sigobj.rs :: impl SignedObject :: validate_at
    //@spec
        requires
            wf(self), rc_wf(*issuer),
        ensures
            outcome_is(r, accepted(self, *issuer, strict, now), self, *issuer),
    //@/spec
    //@end

    //@fn src/repository/sigobj.rs :: impl SignedObject :: validate
    //@spec
        requires
            wf(self), rc_wf(*issuer),
        ensures
            exists|now: Time| outcome_is(r, #[trigger] accepted(self, *issuer, strict, now), self, *issuer),
    //@/spec
    //@end

    //@fn src/repository/sigobj.rs :: impl SignedObject :: process
    //@spec
        requires
            wf(self), rc_wf(*issuer),
            forall|c: &Cert| #[trigger] check_crl.requires((c,)),
        ensures
            exists|now: Time| process_outcome(r, self, *issuer, check_crl, #[trigger] accepted(self, *issuer, strict, now)),
    //@/spec
    //@end
}

// ---- manifests: src/repository/manifest.rs (a signed object without an additional resource check) ----
/// opaque stand-in for manifest::ManifestContent (decoded by bcder)
#[verifier::external_body]
pub struct ManifestContent { _o: u8 }
//@item src/repository/manifest.rs :: pub struct Manifest pubfields
pub open spec fn manifest_outcome(r: Result<(ResourceCert, ManifestContent), ValidationError>, m: Manifest, issuer: ResourceCert, acc: bool) -> bool {
    (r is Ok <==> acc)
    && (r matches Ok((rc, c)) ==> issued_result(rc, m.signed.cert, issuer) && rc_wf(rc) && c == m.content)
}
impl Manifest {
    //@fn src/repository/manifest.rs :: impl Manifest :: validate_at
    //@spec
        requires
            wf(self.signed), rc_wf(*cert),
        ensures
            manifest_outcome(r, self, *cert, accepted(self.signed, *cert, strict, now)),
    //@/spec
    //@end
    //@fn src/repository/manifest.rs :: impl Manifest :: validate
    //@spec
        requires
            wf(self.signed), rc_wf(*cert),
        ensures
            exists|now: Time| manifest_outcome(r, self, *cert, #[trigger] accepted(self.signed, *cert, strict, now)),
    //@/spec
    //@end
}

// ---- consequences, in the words of the statement ---------------------------------------------
/// acceptance implies each of the four conditions, and violating any one of them causes rejection
proof fn lemma_exactly_the_conjunction(r: Result<ResourceCert, ValidationError>, o: SignedObject, issuer: ResourceCert, strict: bool, now: Time)
    requires outcome_is(r, accepted(o, issuer, strict, now), o, issuer),
    ensures
        r matches Ok(rc) ==> sid_matches(o) && digest_matches(o) && signature_verifies(o)
            && ee_valid(o.cert, issuer, strict, now) && issued_result(rc, o.cert, issuer) && rc.cert == o.cert,
        !sid_matches(o) ==> r is Err,
        !digest_matches(o) ==> r is Err,
        !signature_verifies(o) ==> r is Err,
        !ee_valid(o.cert, issuer, strict, now) ==> r is Err,
        sid_matches(o) && digest_matches(o) && signature_verifies(o)
            && ee_valid(o.cert, issuer, strict, now) ==> r is Ok,
{}

/// the CRL callback's verdict is honoured: once the object is accepted, a callback that cannot
/// return Ok for the EE certificate forces rejection, and one that cannot return Err forces acceptance
proof fn lemma_crl_verdict_honoured<F: FnOnce(&Cert) -> Result<(), ValidationError>>(
    r: Result<(ResourceCert, Bytes), ValidationError>, o: SignedObject, issuer: ResourceCert, check_crl: F)
    requires process_outcome(r, o, issuer, check_crl, true),
    ensures
        !check_crl.ensures((&o.cert,), Ok(())) ==> r is Err,
        (forall|e: ValidationError| !#[trigger] check_crl.ensures((&o.cert,), Err(e))) ==> r is Ok,
        r matches Ok((cert, octets)) ==> issued_result(cert, o.cert, issuer) && cert.cert == o.cert && rc_wf(cert)
            && bytes_view(octets) == os_view(o.content),
{}

/// vacuity guard: the preconditions of validate_at / process are satisfiable together with both
/// outcomes of the specification
proof fn reach_validate(o: SignedObject, issuer: ResourceCert, now: Time, rc: ResourceCert)
    requires
        captured_view(o.signed_attrs.0).len() == 203,
        sid_matches(o), digest_matches(o), signature_verifies(o),
        ee_valid(o.cert, issuer, true, now),
        rc.cert == o.cert, rc.tal == issuer.tal, issued_resources(rc, o.cert, issuer), rc_wf(rc),
        cert_res_wf(o.cert),
    ensures
        wf(o),
        accepted(o, issuer, true, now),
        outcome_is(Ok(rc), accepted(o, issuer, true, now), o, issuer),
        !sid_matches(o) ==> outcome_is(Err(ValidationError { inner: arbitrary() }), false, o, issuer),
{}

} // verus!
fn main() {}
