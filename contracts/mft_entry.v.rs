// Unit mft_entry (C14): BOTH decode paths of a manifest file-list entry apply the RFC 9286 name check.
//   FileAndHash::skip_opt_in   (used while ManifestContent::take_from captures the list) and
//   FileAndHash::take_opt_from (used by FileListIter::next when the list is walked)
// are `cons.take_opt_sequence(|cons| { .. })`: closures handed to a bcder combinator.  Verus cannot specify
// closures with `&mut` parameters, so each closure's block is LIFTED (rule R13): its text, byte-identical, is the
// body of a named function with the closure parameter as parameter.  Verified: whenever the closure returns Ok,
// the IA5String it took is a valid RFC 9286 4.2.2 name (contract of validate_file_name, PROVED in unit mft_name and
// linked), and take_opt_from's entry carries exactly that name.  Not verified (assumed, .trusted): that
// take_opt_sequence runs the closure on the content of the next SEQUENCE and returns its result, and the bcder
// primitives Ia5String::take_from / BitString::{skip_in, take_from}.
use vstd::prelude::*;

verus! {

//@include shared/mft_vocab.v.rs

// ---- environment: bcder / bytes stand-ins -----------------------------------------------------
#[verifier::external_body]
pub struct Bytes { _o: u8 }
impl View for Bytes {
    type V = Seq<u8>;
    uninterp spec fn view(&self) -> Seq<u8>;
}
#[verifier::external_body]
pub struct DecodeError { _o: u8 }
#[verifier::external_body]
pub struct Ia5String { _o: u8 }
#[verifier::external_body]
pub struct BitString { _o: u8 }
/// bcder::decode::Constructed; ghost log: the IA5 strings handed out so far, in order
#[verifier::external_body]
pub struct Constructed { _o: u8 }
impl Constructed {
    pub uninterp spec fn names(&self) -> Seq<Seq<u8>>;
    /// what the stream holds next: an IA5String (and which) / a BIT STRING, and the stream behind that value
    pub uninterp spec fn has_ia5(&self) -> bool;
    pub uninterp spec fn next_ia5(&self) -> Seq<u8>;
    pub uninterp spec fn has_bits(&self) -> bool;
    pub uninterp spec fn behind(&self) -> Constructed;
    #[verifier::external_body]
    pub fn content_err<T>(&self, err: T) -> (r: DecodeError) { unimplemented!() }
}
impl Ia5String {
    pub uninterp spec fn text(self) -> Seq<u8>;
    #[verifier::external_body]
    pub fn take_from(cons: &mut Constructed) -> (r: Result<Ia5String, DecodeError>)
        ensures
            r.is_ok() <==> old(cons).has_ia5(),
            r.is_ok() ==> r->Ok_0.text() == old(cons).next_ia5() && final(cons).names() == old(cons).names().push(r->Ok_0.text())
                && final(cons).has_bits() == old(cons).behind().has_bits(),
            r.is_err() ==> final(cons).names() == old(cons).names(),
    { unimplemented!() }
    #[verifier::external_body]
    pub fn into_bytes(self) -> (r: Bytes) ensures r@ == self.text() { unimplemented!() }
}
impl BitString {
    #[verifier::external_body]
    pub fn skip_in(cons: &mut Constructed) -> (r: Result<(), DecodeError>)
        ensures final(cons).names() == old(cons).names(), r.is_ok() <==> old(cons).has_bits() { unimplemented!() }
    /// bcder: skip_in and take_from accept the same BIT STRING encodings (skip_in is take_from without keeping the value)
    #[verifier::external_body]
    pub fn take_from(cons: &mut Constructed) -> (r: Result<BitString, DecodeError>)
        ensures final(cons).names() == old(cons).names(), r.is_ok() <==> old(cons).has_bits() { unimplemented!() }
    #[verifier::external_body]
    pub fn octet_bytes(&self) -> (r: Bytes) { unimplemented!() }
    /// further bcder accessors (no contract), present so that an edit using them is checked instead of failing to compile
    #[verifier::external_body]
    pub fn unused(&self) -> (r: u8) { unimplemented!() }
    #[verifier::external_body]
    pub fn octet_len(&self) -> (r: usize) { unimplemented!() }
}

//@item src/repository/manifest.rs :: pub struct FileAndHash<F, H> pubfields

pub mod lem {
    use super::*;
    pub broadcast proof fn lemma_push_drop_last(s: Seq<Seq<u8>>, x: Seq<u8>)
        ensures (#[trigger] s.push(x)).drop_last() == s, s.push(x).last() == x
    {
        assert(s.push(x).drop_last() =~= s);
    }
}
broadcast use lem::lemma_push_drop_last;

/// the closure took exactly one more IA5 string, and it is a valid manifest file name
pub open spec fn took_valid_name(before: Constructed, after: Constructed) -> bool {
    &&& after.names().len() == before.names().len() + 1
    &&& after.names().drop_last() == before.names()
    &&& valid_mft_name(after.names().last())
}

/// the entry the stream holds next is acceptable: an IA5String that is a valid file name, then a BIT STRING
pub open spec fn entry_ok(c: Constructed) -> bool {
    c.has_ia5() && valid_mft_name(c.next_ia5()) && c.behind().has_bits()
}

impl FileAndHash<Bytes, Bytes> {
    // contract link: proved in unit mft_name for names of any length (R12: the `&Bytes -> &[u8]` deref coercion at
    // the call is specialised to a `&Bytes` parameter whose view is the octets)
    //@stub mft_name :: validate_file_name
    fn validate_file_name(name: &Bytes) -> (r: Result<(), &'static str>)
    //@end

    //@fn src/repository/manifest.rs :: impl FileAndHash<Bytes, Bytes> :: skip_opt_in
    //@lift "cons.take_opt_sequence(|cons|"
    //@sig
    fn skip_entry(cons: &mut Constructed) -> Result<(), DecodeError>
    //@/sig
    //@spec
        ensures
            r.is_ok() ==> took_valid_name(*old(cons), *final(cons)),
            // accepted exactly when a valid name and a BIT STRING are there - the same condition as take_entry below,
            // so the walk at decode time and the iterator agree on every entry
            r.is_ok() <==> entry_ok(*old(cons)),
    //@/spec
    //@end

    //@fn src/repository/manifest.rs :: impl FileAndHash<Bytes, Bytes> :: take_opt_from
    //@lift "cons.take_opt_sequence(|cons|"
    //@sig
    fn take_entry(cons: &mut Constructed) -> Result<Self, DecodeError>
    //@/sig
    //@spec
        ensures
            r.is_ok() ==> took_valid_name(*old(cons), *final(cons)) && r->Ok_0.file@ == final(cons).names().last(),
            r.is_ok() <==> entry_ok(*old(cons)),
    //@/spec
    //@end
}

proof fn reach_took(a: Constructed, b: Constructed, n: Seq<u8>)
    requires valid_mft_name(n), b.names() == a.names().push(n)
    ensures took_valid_name(a, b)
{
    assert(b.names().drop_last() == a.names());
}

} // verus!
fn main() {}
