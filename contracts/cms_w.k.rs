// Unit cms_w (C02 / C10): WITNESS SEARCH ONLY (kind W) - proves nothing, never counted.
// Only public entry points are called (validate_at / process); private FIELDS are used to tamper.
// The Verus units sigobj_compose / sigmsg_compose prove "accepted exactly when every listed check holds"
// for all objects with the cryptography abstract; restructured bodies (e.g. a hand-rolled constant-time
// digest comparison) make them come back undecided.  This unit is the anchor-free last line: it decodes the
// repository's own fixtures (a signed provisioning message with its identity certificate; a manifest with its
// trust anchor) with the COMPILED decoder, tampers ONE decoded field at a time through the private fields
// (digest attribute shortened / lengthened / flipped, content, signer identifier, signature, evaluation time
// around the validity and CRL windows, a CRL entry for the EE serial with any revocation date, a different
// peer key) and requires rejection for every non-conforming single change and acceptance for conforming ones
// - the "any single violation is rejected" clause.  A hit is a concrete tamper, replayed and reported.
//@features ca,rtr,slurm

//@append src/ca/sigmsg.rs
#[cfg(any(kani, verif_replay))]
#[allow(dead_code, unused)]
mod verif_cms_w_msg {
    use super::*;
    use crate::verif_support::{assume, reach};
    use chrono::TimeDelta;

    fn fixture() -> (SignedMessage, IdCert, IdCert) {
        let msg = SignedMessage::decode(Bytes::from_static(include_bytes!("../../test-data/ca/sigmsg/pdu_200.der")), false).unwrap();
        let ta = IdCert::decode(Bytes::from_static(include_bytes!("../../test-data/ca/sigmsg/cms_ta.cer"))).unwrap();
        let other = IdCert::decode(Bytes::from_static(include_bytes!("../../test-data/ca/id_ta.cer"))).unwrap();
        (msg, ta, other)
    }
    fn tamper(orig: &[u8], mode: u8, k: u8, idx: u16, bit: u8, extra: [u8; 4]) -> Vec<u8> {
        let mut v = orig.to_vec();
        match mode % 4 {
            0 => v.truncate((k as usize) % (orig.len() + 1)),
            1 => v.extend_from_slice(&extra[..1 + (k as usize) % 4]),
            2 => if !v.is_empty() { let i = (idx as usize) % v.len(); v[i] ^= 1 << (bit % 8); },
            _ => { v.truncate((k as usize) % (orig.len() + 1)); v.extend_from_slice(&extra[..(idx as usize) % 5]); }
        }
        v
    }

    //@harness cms_w_sigmsg W fn=SignedMessage::{validate_at,inspect,verify},SignedMessageCrl::{validate,verify_not_revoked},SignedMessageTbsCrl::validate,RevokedCertificates::contains,IdCert::validate_ee_at n=1500 timeout=900
    verif_search!{ cms_w_sigmsg; |which: u8, mode: u8, k: u8, idx: u16, bit: u8, extra: [u8; 4], edge: u8, delta: i32, nent: u8, pos: u8, rdelta: i32| {
        let (msg, ta, other) = fixture();
        let key = ta.public_key();
        let t0 = Time::utc(2012, 1, 1, 0, 0, 0);
        assert!(msg.validate_at(key, t0).is_ok(), "the fixture validates under its peer key");
        let mut m = msg.clone();
        match which % 8 {
            0 => {
                let d = tamper(msg.message_digest.as_ref(), mode, k, idx, bit, extra);
                let same = d == msg.message_digest.as_ref();
                m.message_digest = MessageDigest::from(OctetString::new(Bytes::from(d)));
                assert!(m.validate_at(key, t0).is_ok() == same, "digest attribute must equal the SHA-256 of the content (shorter, longer and flipped values are rejected)");
            }
            1 => {
                let c = tamper(&msg.content.to_bytes(), mode, k, idx, bit, extra);
                let same = c == msg.content.to_bytes().as_ref();
                m.content = OctetString::new(Bytes::from(c));
                assert!(m.validate_at(key, t0).is_ok() == same, "changed content is rejected");
            }
            2 => {
                let s = tamper(msg.sid.as_slice(), 2, k, idx, bit, extra);
                m.sid = KeyIdentifier::try_from(&s[..]).unwrap();
                assert!(m.validate_at(key, t0).is_err(), "signer identifier must equal the EE certificate's key identifier");
            }
            3 => {
                let s = tamper(msg.signature.value(), mode, k, idx, bit, extra);
                let same = s == msg.signature.value().as_ref();
                m.signature = RpkiSignature::new(msg.signature.algorithm().clone(), Bytes::from(s));
                assert!(m.validate_at(key, t0).is_ok() == same, "changed signature is rejected");
            }
            4 => {
                assert!(msg.validate_at(other.public_key(), t0).is_err(), "no other key validates the message");
            }
            5 => {
                // evaluation time around the four window edges
                let v = msg.ee_cert.validity();
                let edges = [v.not_before(), v.not_after(), msg.crl.tbs.this_update, msg.crl.tbs.next_update];
                let when = edges[(edge % 4) as usize] + TimeDelta::seconds((delta % 100_000) as i64);
                let want = v.not_before() <= when && when <= v.not_after() && msg.crl.tbs.this_update <= when && when <= msg.crl.tbs.next_update;
                assert!(msg.validate_at(key, when).is_ok() == want, "accepted exactly for times inside the EE validity and the CRL window");
            }
            6 => {
                // the CRL lists some serials; the EE serial is among them or not
                let ee = msg.ee_cert.serial_number();
                let n = (nent % 4) as usize;
                let listed = n > 0 && pos % 2 == 0;
                let mut entries = Vec::new();
                for i in 0..n {
                    let serial = if listed && i == (pos as usize / 2) % n { ee } else {
                        let mut b = [0u8; 20]; b[19] = i as u8 + 1; b[18] = k; b[0] = 0x11; Serial::from_slice(&b).unwrap()
                    };
                    if serial == ee && !listed { continue }
                    entries.push(CrlEntry { user_certificate: serial, revocation_date: t0 + TimeDelta::seconds(rdelta as i64) });
                }
                m.crl.tbs.revoked_certs = RevokedCertificates::from_iter(entries);
                // (the CRL signature is checked over the captured octets, which are untouched)
                assert!(m.validate_at(key, t0).is_ok() == !listed, "an EE certificate listed on the CRL (whatever the revocation date) is rejected, an unlisted one is not");
            }
            _ => {
                // CRL window fields
                let d = TimeDelta::seconds(1 + (delta.unsigned_abs() % 100_000) as i64);
                if mode % 2 == 0 { m.crl.tbs.this_update = t0 + d } else { m.crl.tbs.next_update = t0 - d }
                assert!(m.validate_at(key, t0).is_err(), "a CRL that is not current is rejected");
            }
        }
    }}
}
//@end

//@append src/repository/sigobj.rs
#[cfg(any(kani, verif_replay))]
#[allow(dead_code, unused)]
mod verif_cms_w_obj {
    use super::*;
    use crate::verif_support::{assume, reach};
    use crate::repository::tal::TalInfo;
    use chrono::TimeDelta;

    fn tamper(orig: &[u8], mode: u8, k: u8, idx: u16, bit: u8, extra: [u8; 4]) -> Vec<u8> {
        let mut v = orig.to_vec();
        match mode % 4 {
            0 => v.truncate((k as usize) % (orig.len() + 1)),
            1 => v.extend_from_slice(&extra[..1 + (k as usize) % 4]),
            2 => if !v.is_empty() { let i = (idx as usize) % v.len(); v[i] ^= 1 << (bit % 8); },
            _ => { v.truncate((k as usize) % (orig.len() + 1)); v.extend_from_slice(&extra[..(idx as usize) % 5]); }
        }
        v
    }

    /// DER TLV with definite length
    fn tlv(tag: u8, content: &[u8]) -> Vec<u8> {
        let mut v = vec![tag];
        let n = content.len();
        if n < 0x80 { v.push(n as u8) } else if n < 0x100 { v.extend_from_slice(&[0x81, n as u8]) }
        else if n < 0x10000 { v.extend_from_slice(&[0x82, (n >> 8) as u8, n as u8]) }
        else { v.extend_from_slice(&[0x83, (n >> 16) as u8, (n >> 8) as u8, n as u8]) }
        v.extend_from_slice(content);
        v
    }
    /// one attribute: SEQUENCE { OID 1.2.840.113549.1.9.<last>, SET { value } }
    fn attr(last: u8, value: &[u8]) -> Vec<u8> {
        let mut c = tlv(0x06, &[0x2A, 0x86, 0x48, 0x86, 0xF7, 0x0D, 0x01, 0x09, last]);
        c.extend_from_slice(&tlv(0x31, value));
        tlv(0x30, &c)
    }
    //@harness cms_w_signed_attrs W fn=SignedAttrs::take_from,SignedAttrs::take_from_signed_message,SignedAttrs::take_from_with_mode n=4000 timeout=600
    verif_search!{ cms_w_signed_attrs; |order: [u8; 8], n: u8, strict: bool, big: u8, dlen: u8| {
        // up to 8 attributes in any order: 0 content-type, 1 message-digest, 2 signing-time, 3 an unknown attribute;
        // half of the inputs are the conforming shape (one each, in any order, plus unknown ones) with the digest
        // length chosen so that the total size lands on / next to the DER length-form boundaries
        let mut kinds: Vec<usize> = Vec::new();
        let conforming = big % 2 == 1;
        if conforming {
            let perm = [[0, 1, 2], [0, 2, 1], [1, 0, 2], [1, 2, 0], [2, 0, 1], [2, 1, 0]][(order[0] % 6) as usize];
            kinds.extend_from_slice(&perm);
            for _ in 0..(order[1] % 3) { kinds.insert((order[2] as usize) % (kinds.len() + 1), 3) }
        } else {
            for k in 0..(n % 9) as usize { kinds.push((order[k] % 4) as usize) }
        }
        let fixed: usize = kinds.iter().map(|k| match k { 0 => 28, 1 => 17, 2 => 30, _ => 20 }).sum();
        let targets = [126usize, 127, 128, 129, 130, 255, 256, 257];
        let t = targets[(dlen % 8) as usize];
        let dl = if conforming && dlen >= 128 && t >= fixed && t - fixed < 120 { t - fixed } else { (dlen % 120) as usize };
        let digest = vec![0xAB; dl];
        let mut content = Vec::new();
        let mut cnt = [0usize; 4];
        for (k, which) in kinds.iter().enumerate() {
            let which = *which;
            cnt[which] += 1;
            content.extend_from_slice(&match which {
                0 => attr(3, &tlv(0x06, &[0x2A, 0x86, 0x48, 0x86, 0xF7, 0x0D, 0x01, 0x09, 0x10, 0x01, 0x1A])),
                1 => attr(4, &tlv(0x04, &digest)),
                2 => attr(5, &tlv(0x17, b"190501000000Z")),
                _ => attr(52, &tlv(0x04, &vec![7u8; if big % 16 == 0 && k == 0 { 66000 } else { 3 }])),
            });
        }
        let der = tlv(0xA0, &content);
        let r = if strict { Mode::Der.decode(&der[..], |cons| SignedAttrs::take_from(cons)) }
                else { Mode::Der.decode(&der[..], |cons| SignedAttrs::take_from_signed_message(cons)) };
        let want = cnt[0] == 1 && cnt[1] == 1 && cnt[2] == 1 && (cnt[3] == 0 || !strict) && content.len() <= 0xFFFF;
        assert!(r.is_ok() == want, "accepted exactly with one each of content-type, message-digest, signing-time (unknown attributes only in the CA-protocol mode, at most 65535 octets)");
        if let Ok((attrs, md, _ct, _t)) = r {
            assert!(attrs.0.as_slice() == &content[..], "ALL attributes, unknown ones included, stay in the octets that are signed");
            assert!(md.as_ref() == &digest[..], "the digest attribute value is returned");
            let mut sig_input = tlv(0x31, &content);
            assert!(attrs.encode_verify() == sig_input, "the signature input is the DER SET OF of the attributes");
        }
    }}

    //@harness cms_w_sigobj W fn=SignedObject::{validate_at,inspect,verify,process} n=1500 timeout=900
    verif_search!{ cms_w_sigobj; |which: u8, mode: u8, k: u8, idx: u16, bit: u8, extra: [u8; 4], edge: u8, delta: i32, crl_ok: bool| {
        let at = Time::utc(2019, 5, 1, 0, 0, 0);
        let issuer = Cert::decode(include_bytes!("../../test-data/repository/ta.cer").as_ref()).unwrap()
            .validate_ta_at(TalInfo::from_name("foo".into()).into_arc(), false, at).unwrap();
        let obj = SignedObject::decode(include_bytes!("../../test-data/repository/ta.mft").as_ref(), false).unwrap();
        assert!(obj.clone().validate_at(&issuer, false, at).is_ok(), "the fixture validates under its issuer");
        let mut m = obj.clone();
        match which % 6 {
            0 => {
                let d = tamper(obj.message_digest.as_ref(), mode, k, idx, bit, extra);
                let same = d == obj.message_digest.as_ref();
                m.message_digest = MessageDigest::from(OctetString::new(Bytes::from(d)));
                assert!(m.validate_at(&issuer, false, at).is_ok() == same, "digest attribute must equal the SHA-256 of the content (shorter, longer and flipped values are rejected)");
            }
            1 => {
                let c = tamper(&obj.content.to_bytes(), mode, k, idx, bit, extra);
                let same = c == obj.content.to_bytes().as_ref();
                m.content = OctetString::new(Bytes::from(c));
                assert!(m.validate_at(&issuer, false, at).is_ok() == same, "changed content is rejected");
            }
            2 => {
                let s = tamper(obj.sid.as_slice(), 2, k, idx, bit, extra);
                m.sid = KeyIdentifier::try_from(&s[..]).unwrap();
                assert!(m.validate_at(&issuer, false, at).is_err(), "signer identifier must equal the EE certificate's key identifier");
            }
            3 => {
                let s = tamper(obj.signature.value(), mode, k, idx, bit, extra);
                let same = s == obj.signature.value().as_ref();
                m.signature = RpkiSignature::new(obj.signature.algorithm().clone(), Bytes::from(s));
                assert!(m.validate_at(&issuer, false, at).is_ok() == same, "changed signature is rejected");
            }
            4 => {
                let v = obj.cert.validity();
                let edges = [v.not_before(), v.not_after()];
                let when = edges[(edge % 2) as usize] + TimeDelta::seconds((delta % 100_000) as i64);
                // the issuer fixture is taken as validated; only the EE window matters here
                let want = v.not_before() <= when && when <= v.not_after();
                assert!(m.validate_at(&issuer, false, when).is_ok() == want, "accepted exactly for times inside the EE validity window");
            }
            _ => {
                // the CRL callback's verdict is honoured
                let r = m.process(&issuer, false, |_cert| if crl_ok { Ok(()) } else { Err(crate::repository::error::ValidationError::from(VerificationError::new("revoked"))) });
                // process() validates at the current time: the 2019 fixture is expired today, so only the
                // negative direction can be observed: a refusing callback never yields acceptance
                if !crl_ok { assert!(r.is_err(), "a refusing CRL callback is honoured"); }
            }
        }
    }}
}
//@end
