// Unit chain_kb (C01/C03), Kani side.  BOUNDED ONLY (kind Kb): an anchor-free second line behind the
// unbounded Verus units chain_query / chain_trim / chain_diff / chain_build.  Those units prove the generic
// chain operations of src/repository/resources/chain.rs on text extracted through textual anchors; when a
// function is restructured they come back *undecided* (lost anchor).  This unit needs no anchor inside any
// function body: it calls the compiled operations at the instantiation T = AsBlock (Item = Asn / u32) and
// checks the same top-level postconditions against specifications written here independently:
//     Chain::contains_item        r == (x in self)
//     Chain::is_encompassed       r == (self is a subset of other)
//     Chain::eq                   r == (self and other denote the same set)
//     Chain::trim                 Ok  ==> self subset of other;  Err(c) ==> c canonical and c == self /\ other;
//                                 self subset of other and not both empty ==> Ok
//     Chain::difference           r canonical and r == self \ other
//     OwnedChain::from_iter       r canonical and r == union of the input blocks (lo <= hi each, any order)
// "x in chain" is decided with a symbolic probe x: u32 (CBMC decides the universally quantified statement);
// "subset"/"equal" are decided by probing the finitely many breakpoints of the two interval unions, and
// that characterisation is itself checked against the probe semantics in chain_kb_spec_*.
// BOUND: every operand chain has at most 2 blocks (harnesses *_n2; *_n3 with at most 3 blocks are in the
// thorough tier where they finish); all block bounds, the variant (Id / Range) of every block and the probe
// are fully symbolic u32 / bool.  Nothing here is counted as proved beyond the bound.
//@features ca,rtr,slurm

//@append src/repository/resources/asres.rs
#[cfg(any(kani, verif_replay))]
#[allow(dead_code, unused)]
mod verif_chain_kb {
    use super::*;
    use crate::verif_support::{assume, reach};

    // ---------------- mathematical side: a finite union of closed u32 intervals ---------------
    /// at most 6 intervals [lo[i], hi[i]], i < n  (operands use at most 3, results at most 6)
    #[derive(Clone, Copy)]
    struct Sp { n: usize, lo: [u32; 6], hi: [u32; 6] }

    macro_rules! any_i { ($i:ident, $e:expr) => {
        ({ let $i = 0usize; $e }) || ({ let $i = 1usize; $e }) || ({ let $i = 2usize; $e })
        || ({ let $i = 3usize; $e }) || ({ let $i = 4usize; $e }) || ({ let $i = 5usize; $e })
    }}
    macro_rules! all_i { ($i:ident, $e:expr) => {
        ({ let $i = 0usize; $e }) && ({ let $i = 1usize; $e }) && ({ let $i = 2usize; $e })
        && ({ let $i = 3usize; $e }) && ({ let $i = 4usize; $e }) && ({ let $i = 5usize; $e })
    }}

    fn sp3(n: u8, a0: u32, a1: u32, b0: u32, b1: u32, c0: u32, c1: u32) -> Sp {
        Sp { n: n as usize, lo: [a0, b0, c0, 0, 0, 0], hi: [a1, b1, c1, 0, 0, 0] }
    }
    /// x is a member of the union
    fn has(s: &Sp, x: u32) -> bool { any_i!(i, i < s.n && s.lo[i] <= x && x <= s.hi[i]) }
    /// every interval is non-empty
    fn blocks_ok(s: &Sp) -> bool { all_i!(i, i >= s.n || s.lo[i] <= s.hi[i]) }
    /// the chain invariant: non-empty intervals, ascending, disjoint and not adjacent (hi_i + 1 < lo_{i+1})
    fn canonical(s: &Sp) -> bool {
        s.n <= 6 && blocks_ok(s) && all_i!(i, i + 1 >= s.n || (s.hi[i] as u64) + 1 < s.lo[i + 1] as u64)
    }
    /// Some(w) with w in a \ b, or None.  x |-> (x in a && x not in b) is piecewise constant and can switch
    /// from false to true only at a lower bound of a or just behind an upper bound of b, so it is enough
    /// to look at those points.  (Checked against the probe semantics in chain_kb_spec_*.)
    fn diff_witness(a: &Sp, b: &Sp) -> Option<u32> {
        let mut w = None;
        macro_rules! cand { ($ok:expr, $v:expr) => { if w.is_none() && $ok { let v: u32 = $v; if has(a, v) && !has(b, v) { w = Some(v); } } } }
        cand!(a.n > 0, a.lo[0]); cand!(a.n > 1, a.lo[1]); cand!(a.n > 2, a.lo[2]);
        cand!(b.n > 0 && b.hi[0] < u32::MAX, b.hi[0] + 1);
        cand!(b.n > 1 && b.hi[1] < u32::MAX, b.hi[1] + 1);
        cand!(b.n > 2 && b.hi[2] < u32::MAX, b.hi[2] + 1);
        w
    }
    fn subset(a: &Sp, b: &Sp) -> bool { diff_witness(a, b).is_none() }

    // ---------------- compiled side ------------------------------------------------------------
    fn asn(x: u32) -> Asn { Asn::from_u32(x) }
    /// the block [lo,hi]; `id` selects the Id variant where that is possible (both variants are legal input)
    fn blk(lo: u32, hi: u32, id: bool) -> AsBlock {
        if id && lo == hi { AsBlock::Id(asn(lo)) } else { AsBlock::Range(AsRange::new(asn(lo), asn(hi))) }
    }
    /// the first s.n blocks as a Vec.  (Built at full length and truncated: conditional `push`es make the
    /// length symbolic at every push and drag Vec's reallocation path into the formula: 350 s instead of 6 s.)
    fn mkvec(s: &Sp, var: u8) -> Vec<AsBlock> {
        assume(s.n <= 3);
        let mut v = vec![blk(s.lo[0], s.hi[0], var & 1 != 0), blk(s.lo[1], s.hi[1], var & 2 != 0), blk(s.lo[2], s.hi[2], var & 4 != 0)];
        v.truncate(s.n);
        v
    }
    /// a chain holding exactly the given blocks (caller assumes `canonical`)
    fn mkchain(s: &Sp, var: u8) -> OwnedChain<AsBlock> { unsafe { OwnedChain::from_vec_unchecked(mkvec(s, var)) } }
    /// the intervals of a result chain
    fn view(c: &[AsBlock]) -> Sp {
        assert!(c.len() <= 6, "result has at most 6 blocks");
        let mut s = Sp { n: c.len(), lo: [0; 6], hi: [0; 6] };
        macro_rules! rd { ($i:expr) => { if let Some(b) = c.get($i) { s.lo[$i] = b.min().into_u32(); s.hi[$i] = b.max().into_u32(); } } }
        rd!(0); rd!(1); rd!(2); rd!(3); rd!(4); rd!(5);
        s
    }

    // ---------------- the specification helpers against the probe semantics --------------------
    macro_rules! spec_harness { ($name:ident, $bound:expr) => {
        verif_harness!{ $name; |n: u8, a0: u32, a1: u32, b0: u32, b1: u32, c0: u32, c1: u32,
                                m: u8, d0: u32, d1: u32, e0: u32, e1: u32, f0: u32, f1: u32, x: u32| {
            assume(n <= $bound && m <= $bound);
            let (s, o) = (sp3(n, a0, a1, b0, b1, c0, c1), sp3(m, d0, d1, e0, e1, f0, f1));
            // no canonicity needed: holds for arbitrary unions of non-empty intervals
            assume(blocks_ok(&s) && blocks_ok(&o));
            match diff_witness(&s, &o) {
                Some(w) => assert!(has(&s, w) && !has(&o, w), "a witness is a member of s \\ o"),
                None => assert!(!has(&s, x) || has(&o, x), "no witness: every x in s is in o"),
            }
        }}
    }}
    //@harness chain_kb_spec_n2 Kb fn=- bound="unions of at most 2 intervals" timeout=300
    spec_harness!(chain_kb_spec_n2, 2);
    //@harness chain_kb_spec_n3 Kb fn=- bound="unions of at most 3 intervals" timeout=300
    spec_harness!(chain_kb_spec_n3, 3);

    // ---------------- operations on two canonical chains ----------------------------------------
    macro_rules! pair_harness { ($name:ident, $unwind:literal, $bound:expr, |$s:ident, $o:ident, $os:ident, $oo:ident, $x:ident| $body:block) => {
        verif_harness!{ #[kani::unwind($unwind)] $name; |n: u8, a0: u32, a1: u32, b0: u32, b1: u32, c0: u32, c1: u32, va: u8,
                                                         m: u8, d0: u32, d1: u32, e0: u32, e1: u32, f0: u32, f1: u32, vb: u8, x: u32| {
            assume(n <= $bound && m <= $bound);
            let ($s, $o) = (sp3(n, a0, a1, b0, b1, c0, c1), sp3(m, d0, d1, e0, e1, f0, f1));
            assume(canonical(&$s) && canonical(&$o));
            let ($os, $oo, $x) = (mkchain(&$s, va), mkchain(&$o, vb), x);
            $body
        }}
    }}

    macro_rules! contains_body { ($name:ident, $unwind:literal, $bound:expr) => {
        pair_harness!($name, $unwind, $bound, |s, o, os, oo, x| {
            let (cs, co) = (os.as_chain(), oo.as_chain());
            assert!(cs.contains_item(asn(x)) == has(&s, x), "contains_item(x) == (x in self)");
            assert!(co.contains_item(asn(x)) == has(&o, x), "contains_item(x) == (x in other)");
        });
    }}
    //@harness chain_kb_contains_n2 Kb fn=Chain::contains_item bound="chains of at most 2 blocks, bounds and probe symbolic" timeout=600
    contains_body!(chain_kb_contains_n2, 4, 2);
    //@harness chain_kb_contains_n3 Kb fn=Chain::contains_item bound="chains of at most 3 blocks, bounds and probe symbolic" timeout=600
    contains_body!(chain_kb_contains_n3, 5, 3);

    macro_rules! encompassed_body { ($name:ident, $unwind:literal, $bound:expr) => {
        pair_harness!($name, $unwind, $bound, |s, o, os, oo, x| {
            let (cs, co) = (os.as_chain(), oo.as_chain());
            let r = cs.is_encompassed(&oo);
            assert!(r == subset(&s, &o), "is_encompassed == (self is a subset of other)");
            if r { assert!(!has(&s, x) || has(&o, x), "is_encompassed ==> every x in self is in other"); }
        });
    }}
    //@harness chain_kb_encompassed_n2 Kb fn=Chain::is_encompassed bound="chains of at most 2 blocks, bounds and probe symbolic" timeout=600
    encompassed_body!(chain_kb_encompassed_n2, 5, 2);
    //@harness chain_kb_encompassed_n3 Kb fn=Chain::is_encompassed bound="chains of at most 3 blocks, bounds and probe symbolic" timeout=900 thorough
    encompassed_body!(chain_kb_encompassed_n3, 7, 3);

    macro_rules! eq_body { ($name:ident, $unwind:literal, $bound:expr) => {
        pair_harness!($name, $unwind, $bound, |s, o, os, oo, x| {
            let (cs, co) = (os.as_chain(), oo.as_chain());
            let r = cs == co;
            assert!(r == (subset(&s, &o) && subset(&o, &s)), "== is equality of the denoted sets");
            if r { assert!(has(&s, x) == has(&o, x), "== ==> same members"); }
            assert!((os == oo) == r, "OwnedChain == is Chain ==");
        });
    }}
    //@harness chain_kb_eq_n2 Kb fn=Chain::eq bound="chains of at most 2 blocks, bounds and probe symbolic" timeout=600
    eq_body!(chain_kb_eq_n2, 4, 2);
    //@harness chain_kb_eq_n3 Kb fn=Chain::eq bound="chains of at most 3 blocks, bounds and probe symbolic" timeout=900 thorough
    eq_body!(chain_kb_eq_n3, 5, 3);

    macro_rules! trim_body { ($name:ident, $unwind:literal, $bound:expr) => {
        pair_harness!($name, $unwind, $bound, |s, o, os, oo, x| {
            let (cs, co) = (os.as_chain(), oo.as_chain());
            match cs.trim(&oo) {
                Ok(()) => {
                    assert!(!has(&s, x) || has(&o, x), "trim Ok ==> every x in self is in other");
                }
                Err(c) => {
                    let r = view(c.as_slice());
                    assert!(canonical(&r), "trim Err(c): c is canonical");
                    assert!(has(&r, x) == (has(&s, x) && has(&o, x)), "trim Err(c): x in c <==> x in self && x in other");
                    assert!(!subset(&s, &o) || (s.n == 0 && o.n == 0), "self subset of other and not both empty ==> Ok");
                }
            }
        });
    }}
    //@harness chain_kb_trim_n2 Kb fn=Chain::trim bound="self and other at most 2 blocks, bounds and probe symbolic" timeout=900
    trim_body!(chain_kb_trim_n2, 8, 2);
    //@harness chain_kb_trim_n3 Kb fn=Chain::trim bound="self and other at most 3 blocks, bounds and probe symbolic" timeout=1800 thorough
    trim_body!(chain_kb_trim_n3, 11, 3);

    macro_rules! difference_body { ($name:ident, $unwind:literal, $bound:expr) => {
        pair_harness!($name, $unwind, $bound, |s, o, os, oo, x| {
            let (cs, co) = (os.as_chain(), oo.as_chain());
            let d = cs.difference(&oo);
            let r = view(d.as_slice());
            assert!(canonical(&r), "difference is canonical");
            assert!(has(&r, x) == (has(&s, x) && !has(&o, x)), "x in difference <==> x in self && x not in other");
        });
    }}
    //@harness chain_kb_difference_n2 Kb fn=Chain::difference bound="self and other at most 2 blocks, bounds and probe symbolic" timeout=900
    difference_body!(chain_kb_difference_n2, 8, 2);
    //@harness chain_kb_difference_n3 Kb fn=Chain::difference bound="self and other at most 3 blocks, bounds and probe symbolic" timeout=1800 thorough
    difference_body!(chain_kb_difference_n3, 11, 3);
}
//@end
