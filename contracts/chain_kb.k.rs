// Unit chain_kb (C01/C03), Kani side.  BOUNDED ONLY (kind Kb): an anchor-free second line behind the
// unbounded Verus units chain_query / chain_trim / chain_diff / chain_build.  Those units prove the generic
// chain operations of src/repository/resources/chain.rs on text extracted through textual anchors; when a
// function is restructured they come back *undecided* (lost anchor).  This unit needs no anchor inside any
// function body: it calls the compiled operations at the instantiation T = AsBlock (Item = Asn / u32) and
// checks the same top-level postconditions against specifications written here independently:
//     Chain::contains_item        r == (x in self)
//     Chain::is_encompassed       r == (self is a subset of other)
//     Chain::eq                   r == (self and other denote the same set)
//     Chain::trim                 Ok  ==> self subset of other;  Err(c) ==> c canonical and c == self /\ other;
//                                 self subset of other and not both empty ==> Ok
//     Chain::difference           r canonical and r == self \ other
//     OwnedChain::from_iter       r canonical and r == union of the input blocks (lo <= hi each, any order)
// "x in chain" is decided with a symbolic probe x: u32 (CBMC decides the universally quantified statement);
// "subset" / "equal" are decided by probing the finitely many breakpoints of the two interval unions, and
// that characterisation is itself checked against the probe semantics in chain_kb_spec_*.
// All block bounds, the variant (Id / Range) of every operand block and the probe are fully symbolic.
// BOUND (number of blocks per operand; stated per harness, `sA_oB` = self <= A blocks, other <= B blocks):
//     contains_item, is_encompassed, ==      <= 3 blocks each
//     trim, difference                       see the harness lines (quick tier: small shapes; thorough: <= 2 each)
//     from_iter                              <= 2 input blocks (sorted and unsorted path separately)
// Nothing here is counted as proved beyond the bound.
// ASSUMPTIONS (std only, all CHECKED rather than assumed, see "allocator model"): the harnesses that reach
// Vec growth run with std::alloc::alloc / realloc and core::ptr::copy_nonoverlapping replaced by equivalent
// bounded implementations (Kani stubs); any request outside their bound fails the harness.
//@features ca,rtr,slurm

//@append src/repository/resources/asres.rs
#[cfg(any(kani, verif_replay))]
#[allow(dead_code, unused)]
mod verif_chain_kb {
    use super::*;
    use crate::verif_support::{assume, reach};

    // ---------------- mathematical side: a finite union of closed u32 intervals ---------------
    /// at most 6 intervals [lo[i], hi[i]], i < n  (operands use at most 3, results at most 6)
    #[derive(Clone, Copy)]
    struct Sp { n: usize, lo: [u32; 6], hi: [u32; 6] }

    macro_rules! any_i { ($i:ident, $e:expr) => {
        ({ let $i = 0usize; $e }) || ({ let $i = 1usize; $e }) || ({ let $i = 2usize; $e })
        || ({ let $i = 3usize; $e }) || ({ let $i = 4usize; $e }) || ({ let $i = 5usize; $e })
    }}
    macro_rules! all_i { ($i:ident, $e:expr) => {
        ({ let $i = 0usize; $e }) && ({ let $i = 1usize; $e }) && ({ let $i = 2usize; $e })
        && ({ let $i = 3usize; $e }) && ({ let $i = 4usize; $e }) && ({ let $i = 5usize; $e })
    }}

    fn sp3(n: u8, a0: u32, a1: u32, b0: u32, b1: u32, c0: u32, c1: u32) -> Sp {
        Sp { n: n as usize, lo: [a0, b0, c0, 0, 0, 0], hi: [a1, b1, c1, 0, 0, 0] }
    }
    /// x is a member of the union
    fn has(s: &Sp, x: u32) -> bool { any_i!(i, i < s.n && s.lo[i] <= x && x <= s.hi[i]) }
    /// every interval is non-empty
    fn blocks_ok(s: &Sp) -> bool { all_i!(i, i >= s.n || s.lo[i] <= s.hi[i]) }
    /// the chain invariant: non-empty intervals, ascending, disjoint and not adjacent (hi_i + 1 < lo_{i+1})
    fn canonical(s: &Sp) -> bool {
        s.n <= 6 && blocks_ok(s) && all_i!(i, i + 1 >= s.n || (s.hi[i] as u64) + 1 < s.lo[i + 1] as u64)
    }
    /// Some(w) with w in a \ b, or None.  x |-> (x in a && x not in b) is piecewise constant and can switch
    /// from false to true only at a lower bound of a or just behind an upper bound of b, so it is enough
    /// to look at those points.  (Checked against the probe semantics in chain_kb_spec_*; operands only.)
    fn diff_witness(a: &Sp, b: &Sp) -> Option<u32> {
        let mut w = None;
        macro_rules! cand { ($ok:expr, $v:expr) => { if w.is_none() && $ok { let v: u32 = $v; if has(a, v) && !has(b, v) { w = Some(v); } } } }
        cand!(a.n > 0, a.lo[0]); cand!(a.n > 1, a.lo[1]); cand!(a.n > 2, a.lo[2]);
        cand!(b.n > 0 && b.hi[0] < u32::MAX, b.hi[0] + 1);
        cand!(b.n > 1 && b.hi[1] < u32::MAX, b.hi[1] + 1);
        cand!(b.n > 2 && b.hi[2] < u32::MAX, b.hi[2] + 1);
        w
    }
    fn subset(a: &Sp, b: &Sp) -> bool { diff_witness(a, b).is_none() }

    // ---------------- compiled side ------------------------------------------------------------
    fn asn(x: u32) -> Asn { Asn::from_u32(x) }
    /// the block [lo,hi]; `id` selects the Id variant where that is possible (both variants are legal input)
    fn blk(lo: u32, hi: u32, id: bool) -> AsBlock {
        if id && lo == hi { AsBlock::Id(asn(lo)) } else { AsBlock::Range(AsRange::new(asn(lo), asn(hi))) }
    }
    /// the first s.n (<= 3) blocks as a Vec.  (Built at full length and truncated: conditional `push`es make the
    /// length symbolic at every push and drag Vec's growth path into the formula: 350 s instead of 6 s.)
    fn mkvec(s: &Sp, var: u8) -> Vec<AsBlock> {
        assume(s.n <= 3);
        let mut v = Vec::with_capacity(4);
        v.push(blk(s.lo[0], s.hi[0], var & 1 != 0)); v.push(blk(s.lo[1], s.hi[1], var & 2 != 0)); v.push(blk(s.lo[2], s.hi[2], var & 4 != 0));
        v.truncate(s.n);
        v
    }
    /// a chain holding exactly the given blocks (caller assumes `canonical`)
    fn mkchain(s: &Sp, var: u8) -> OwnedChain<AsBlock> { unsafe { OwnedChain::from_vec_unchecked(mkvec(s, var)) } }
    /// the intervals of a result chain
    fn view(c: &[AsBlock]) -> Sp {
        assert!(c.len() <= 6, "result has at most 6 blocks");
        let mut s = Sp { n: c.len(), lo: [0; 6], hi: [0; 6] };
        macro_rules! rd { ($i:expr) => { if let Some(b) = c.get($i) { s.lo[$i] = b.min().into_u32(); s.hi[$i] = b.max().into_u32(); } } }
        rd!(0); rd!(1); rd!(2); rd!(3); rd!(4); rd!(5);
        s
    }
    /// every block is in the canonical representation of `AsBlock::new`: Id exactly for single numbers
    fn canonical_variants(c: &[AsBlock]) -> bool {
        macro_rules! ok { ($i:expr) => { match c.get($i) { Some(b) => matches!(b, AsBlock::Id(_)) == (b.min() == b.max()), None => true } } }
        ok!(0) && ok!(1) && ok!(2) && ok!(3) && ok!(4) && ok!(5)
    }

    // ---------------- allocator model (Kani only) -------------------------------------------------
    // Why: `Vec::push` inside the loops of trim / difference / from_iter asks the allocator for a buffer whose
    // size is a symbolic expression (the capacity is a merge over loop paths), at every push site of every
    // unwound iteration.  CBMC then creates one heap object of symbolic size per site; every block written or
    // read through the result pointer is encoded against all of them, and the propositional encoding exhausts
    // 60 GB already for two-block chains (measured; four conditional pushes alone: 3.5 M variables).
    // The model is a POOL ALLOCATOR: a few real heap objects per size class (1, 2 and 4 AsBlocks of
    // 12 bytes, alignment 4) are obtained from Kani's built-in allocator when the harness starts and are handed
    // out in order, each at most once.  This is a legal behaviour of the global allocator (distinct live blocks
    // of exactly the requested size; realloc keeps the old contents; freed blocks are never reused), so nothing
    // is assumed about rpki-rs code, and Kani's bounds / use-after-free checks stay exact because every object
    // has exactly the requested size.  A request of any other size or alignment, or more requests than the
    // pool holds, FAILS the harness (panic) - it is not assumed away.  `copy_model` replaces
    // core::ptr::copy_nonoverlapping (reached through `self.0[..idx].into()` with a symbolic length, which CBMC
    // encodes as a symbolic-size array copy) by the equivalent element-wise copy of at most 2 elements
    // (asserted).  Native replay uses the real allocator and the real copy.
    #[cfg(kani)]
    mod pool {
        use std::alloc::{alloc_zeroed, dealloc, Layout};
        use core::ptr::{addr_of_mut, null_mut, NonNull};
        /// size classes: buffers of 1, 2 and 4 AsBlocks; number of objects per class
        const SIZE: [usize; 3] = [12, 24, 48];
        const AVAIL: [usize; 3] = [1, 1, 4];
        static mut POOL: [[*mut u8; 4]; 3] = [[null_mut(); 4]; 3];
        static mut USED: [usize; 3] = [0; 3];
        /// called first in every harness that uses the model (alloc_zeroed is not stubbed: real objects)
        pub fn init() {
            macro_rules! fill { ($c:literal, $($k:literal)*) => { $( unsafe { (*addr_of_mut!(POOL))[$c][$k] = alloc_zeroed(Layout::from_size_align_unchecked(SIZE[$c], 4)); } )* } }
            fill!(0, 0); fill!(1, 0); fill!(2, 0 1 2 3);
        }
        unsafe fn take(class: usize) -> *mut u8 {
            unsafe {
                let k = (*addr_of_mut!(USED))[class];
                assert!(k < AVAIL[class], "allocator model: pool exhausted");
                (*addr_of_mut!(USED))[class] = k + 1;
                (*addr_of_mut!(POOL))[class][k]
            }
        }
        /// stands in for std::alloc::alloc
        pub unsafe fn alloc(layout: Layout) -> *mut u8 {
            assert!(layout.align() == 4, "allocator model: only Vec<AsBlock> buffers (alignment 4)");
            unsafe { match layout.size() {
                48 => take(2), 12 => take(0), 24 => take(1),
                _ => panic!("allocator model: unexpected buffer size"),
            } }
        }
        /// stands in for alloc::alloc::realloc_nonnull (contract of GlobalAlloc::realloc: a block of new_size
        /// bytes holding the first min(old, new) bytes of the old block, which is freed).  Only the growth
        /// steps 1 -> 4 and 2 -> 4 blocks occur (Vec's amortised growth from an exactly sized prefix copy).
        pub unsafe fn realloc(ptr: NonNull<u8>, layout: Layout, new_size: usize) -> *mut u8 {
            assert!(layout.align() == 4 && new_size == 48, "allocator model: Vec<AsBlock> buffers only grow to 4 blocks");
            unsafe {
                let new = take(2);
                let (s, d) = (ptr.as_ptr() as *const u32, new as *mut u32);
                macro_rules! w { ($($i:literal)*) => { $( d.add($i).write(s.add($i).read()); )* } }
                match layout.size() {
                    12 => { w!(0 1 2); }
                    24 => { w!(0 1 2 3 4 5); }
                    _ => panic!("allocator model: unexpected old size"),
                }
                dealloc(ptr.as_ptr(), layout);
                new
            }
        }
        /// no growth of a live buffer is expected (results of at most 4 blocks built by push alone)
        pub unsafe fn no_realloc(ptr: NonNull<u8>, layout: Layout, new_size: usize) -> *mut u8 {
            panic!("allocator model: no reallocation expected in this harness")
        }
        /// stands in for core::slice::sort::unstable::ipnsort, the branch of sort_unstable* for slices of more
        /// than 20 elements (recursive quicksort; CBMC unfolds it although the slices here have at most 3 elements)
        pub fn no_ipnsort<T, F: FnMut(&T, &T) -> bool>(v: &mut [T], is_less: &mut F) {
            panic!("sort model: no slice of more than 20 elements is sorted in this harness")
        }
        /// stands in for core::ptr::copy_nonoverlapping
        pub unsafe fn copy_model<T>(src: *const T, dst: *mut T, count: usize) {
            assert!(count <= 2, "copy model: at most 2 elements");
            unsafe {
                if count > 0 { dst.write(src.read()); }
                if count > 1 { dst.add(1).write(src.add(1).read()); }
            }
        }
    }
    #[cfg(not(kani))]
    mod pool { pub fn init() {} }

    // ---------------- the specification helpers against the probe semantics --------------------
    macro_rules! spec_harness { ($name:ident, $bound:expr) => {
        verif_harness!{ $name; |n: u8, a0: u32, a1: u32, b0: u32, b1: u32, c0: u32, c1: u32,
                                m: u8, d0: u32, d1: u32, e0: u32, e1: u32, f0: u32, f1: u32, x: u32| {
            assume(n <= $bound && m <= $bound);
            let (s, o) = (sp3(n, a0, a1, b0, b1, c0, c1), sp3(m, d0, d1, e0, e1, f0, f1));
            // no canonicity needed: holds for arbitrary unions of non-empty intervals
            assume(blocks_ok(&s) && blocks_ok(&o));
            match diff_witness(&s, &o) {
                Some(w) => assert!(has(&s, w) && !has(&o, w), "a witness is a member of s \\ o"),
                None => assert!(!has(&s, x) || has(&o, x), "no witness: every x in s is in o"),
            }
        }}
    }}
    //@harness chain_kb_spec_n3 Kb fn=spec(diff_witness) bound="unions of at most 3 intervals" timeout=300
    spec_harness!(chain_kb_spec_n3, 3);

    // ---------------- operations on two canonical chains ----------------------------------------
    macro_rules! pair_body { ($bn:expr, $bm:expr, [$n:ident $a0:ident $a1:ident $b0:ident $b1:ident $c0:ident $c1:ident $va:ident $m:ident $d0:ident $d1:ident $e0:ident $e1:ident $f0:ident $f1:ident $vb:ident $xx:ident],
                              |$s:ident, $o:ident, $os:ident, $oo:ident, $x:ident| $body:block) => { {
        assume($n <= $bn && $m <= $bm);
        let ($s, $o) = (sp3($n, $a0, $a1, $b0, $b1, $c0, $c1), sp3($m, $d0, $d1, $e0, $e1, $f0, $f1));
        assume(canonical(&$s) && canonical(&$o));
        let ($os, $oo, $x) = (mkchain(&$s, $va), mkchain(&$o, $vb), $xx);
        $body
    } } }
    /// queries (no allocation inside the operation): run with the built-in allocator, no stub
    macro_rules! query_harness { ($name:ident, $unwind:literal, $bn:expr, $bm:expr, |$s:ident, $o:ident, $os:ident, $oo:ident, $x:ident| $body:block) => {
        verif_harness!{ #[kani::unwind($unwind)]
                        $name; |n: u8, a0: u32, a1: u32, b0: u32, b1: u32, c0: u32, c1: u32, va: u8,
                                m: u8, d0: u32, d1: u32, e0: u32, e1: u32, f0: u32, f1: u32, vb: u8, x: u32| {
            pair_body!($bn, $bm, [n a0 a1 b0 b1 c0 c1 va m d0 d1 e0 e1 f0 f1 vb x], |$s, $o, $os, $oo, $x| $body)
        }}
    }}
    /// operations that build a Vec: run under the allocator model.
    /// $realloc: `realloc` where the operation legitimately grows a live buffer, `no_realloc` otherwise
    macro_rules! pair_harness { ($name:ident, $unwind:literal, $realloc:ident, $bn:expr, $bm:expr, |$s:ident, $o:ident, $os:ident, $oo:ident, $x:ident| $body:block) => {
        verif_harness!{ #[kani::unwind($unwind)] #[kani::stub(std::alloc::alloc, pool::alloc)] #[kani::stub(alloc::alloc::realloc_nonnull, pool::$realloc)]
                        #[kani::stub(core::ptr::copy_nonoverlapping, pool::copy_model)]
                        $name; |n: u8, a0: u32, a1: u32, b0: u32, b1: u32, c0: u32, c1: u32, va: u8,
                                m: u8, d0: u32, d1: u32, e0: u32, e1: u32, f0: u32, f1: u32, vb: u8, x: u32| {
            pool::init();
            pair_body!($bn, $bm, [n a0 a1 b0 b1 c0 c1 va m d0 d1 e0 e1 f0 f1 vb x], |$s, $o, $os, $oo, $x| $body)
        }}
    }}

    macro_rules! contains_body { ($name:ident, $unwind:literal, $bound:expr) => {
        query_harness!($name, $unwind, $bound, $bound, |s, o, os, oo, x| {
            let (cs, co) = (os.as_chain(), oo.as_chain());
            assert!(cs.contains_item(asn(x)) == has(&s, x), "contains_item(x) == (x in self)");
            assert!(co.contains_item(asn(x)) == has(&o, x), "contains_item(x) == (x in other)");
        });
    }}
    //@harness chain_kb_contains_n3 Kb fn=Chain::contains_item bound="chains of at most 3 blocks, bounds and probe symbolic" timeout=600
    contains_body!(chain_kb_contains_n3, 5, 3);

    macro_rules! encompassed_body { ($name:ident, $unwind:literal, $bound:expr) => {
        query_harness!($name, $unwind, $bound, $bound, |s, o, os, oo, x| {
            let (cs, co) = (os.as_chain(), oo.as_chain());
            let r = cs.is_encompassed(&oo);
            assert!(r == subset(&s, &o), "is_encompassed == (self is a subset of other)");
            if r { assert!(!has(&s, x) || has(&o, x), "is_encompassed ==> every x in self is in other"); }
        });
    }}
    //@harness chain_kb_encompassed_n3 Kb fn=Chain::is_encompassed bound="chains of at most 3 blocks, bounds and probe symbolic" timeout=900 thorough
    encompassed_body!(chain_kb_encompassed_n3, 7, 3);

    macro_rules! eq_body { ($name:ident, $unwind:literal, $bound:expr) => {
        query_harness!($name, $unwind, $bound, $bound, |s, o, os, oo, x| {
            let (cs, co) = (os.as_chain(), oo.as_chain());
            let r = cs == co;
            assert!(r == (subset(&s, &o) && subset(&o, &s)), "== is equality of the denoted sets");
            if r { assert!(has(&s, x) == has(&o, x), "== ==> same members"); }
            assert!((os == oo) == r, "OwnedChain == is Chain ==");
        });
    }}
    //@harness chain_kb_encompassed_n2 Kb fn=Chain::is_encompassed bound="chains of at most 2 blocks, bounds and probe symbolic" timeout=900
    encompassed_body!(chain_kb_encompassed_n2, 5, 2);

    //@harness chain_kb_eq_n3 Kb fn=Chain::eq bound="chains of at most 3 blocks, bounds and probe symbolic" timeout=900
    eq_body!(chain_kb_eq_n3, 5, 3);

    macro_rules! trim_body { ($name:ident, $unwind:literal, $realloc:ident, $bn:expr, $bm:expr) => {
        pair_harness!($name, $unwind, $realloc, $bn, $bm, |s, o, os, oo, x| {
            let cs = os.as_chain();
            match cs.trim(&oo) {
                Ok(()) => {
                    assert!(!has(&s, x) || has(&o, x), "trim Ok ==> every x in self is in other");
                }
                Err(c) => {
                    let r = view(c.as_slice());
                    assert!(canonical(&r), "trim Err(c): c is canonical");
                    assert!(has(&r, x) == (has(&s, x) && has(&o, x)), "trim Err(c): x in c <==> x in self && x in other");
                    assert!(!subset(&s, &o) || (s.n == 0 && o.n == 0), "self subset of other and not both empty ==> Ok");
                }
            }
        });
    }}
    //@harness chain_kb_trim_s1_o1 Kb fn=Chain::trim bound="self and other at most 1 block, bounds and probe symbolic" timeout=900 thorough
    trim_body!(chain_kb_trim_s1_o1, 3, no_realloc, 1, 1);
    //@harness chain_kb_trim_s2_o1 Kb fn=Chain::trim bound="self at most 2 blocks, other at most 1 block, bounds and probe symbolic" timeout=1800 thorough
    trim_body!(chain_kb_trim_s2_o1, 4, realloc, 2, 1);
    //@harness chain_kb_trim_s1_o2 Kb fn=Chain::trim bound="self at most 1 block, other at most 2 blocks, bounds and probe symbolic" timeout=1800 thorough
    trim_body!(chain_kb_trim_s1_o2, 5, no_realloc, 1, 2);
    //@harness chain_kb_trim_n2 Kb fn=Chain::trim bound="self and other at most 2 blocks, bounds and probe symbolic" timeout=3600 thorough
    trim_body!(chain_kb_trim_n2, 6, realloc, 2, 2);

    macro_rules! difference_body { ($name:ident, $unwind:literal, $bn:expr, $bm:expr) => {
        pair_harness!($name, $unwind, no_realloc, $bn, $bm, |s, o, os, oo, x| {
            let cs = os.as_chain();
            let d = cs.difference(&oo);
            let r = view(d.as_slice());
            assert!(canonical(&r), "difference is canonical");
            assert!(has(&r, x) == (has(&s, x) && !has(&o, x)), "x in difference <==> x in self && x not in other");
        });
    }}
    //@harness chain_kb_difference_s1_o1 Kb fn=Chain::difference bound="self and other at most 1 block, bounds and probe symbolic" timeout=900 thorough
    difference_body!(chain_kb_difference_s1_o1, 3, 1, 1);
    //@harness chain_kb_difference_n2 Kb fn=Chain::difference bound="self and other at most 2 blocks, bounds and probe symbolic" timeout=1800 thorough
    difference_body!(chain_kb_difference_n2, 5, 2, 2);

    // ---------------- OwnedChain::from_iter -------------------------------------------------------
    /// stands in for chain::from_iter_unsorted in the fast-path harnesses: reaching it fails the harness
    fn no_unsorted<T: Block, I: Iterator<Item = T>>(res: Vec<T>, block: T, iter: I) -> OwnedChain<T> {
        panic!("from_iter left its fast path on input with ascending lower bounds")
    }
    /// input blocks in ascending order of their lower bounds: from_iter never leaves its fast path
    fn sorted_by_lo(s: &Sp) -> bool { all_i!(i, i + 1 >= s.n || s.lo[i] <= s.lo[i + 1]) }
    macro_rules! from_iter_body { ($name:ident, $unwind:literal, $bound:expr, $exact:expr, $sorted:expr $(, #[$extra:meta])*) => {
        verif_harness!{ $(#[$extra])* #[kani::unwind($unwind)] #[kani::stub(std::alloc::alloc, pool::alloc)] #[kani::stub(alloc::alloc::realloc_nonnull, pool::no_realloc)]
                        #[kani::stub(core::ptr::copy_nonoverlapping, pool::copy_model)] #[kani::stub(core::slice::sort::unstable::ipnsort, pool::no_ipnsort)]
                        $name; |n: u8, a0: u32, a1: u32, b0: u32, b1: u32, c0: u32, c1: u32, va: u8, x: u32| {
            pool::init();
            // $exact: the number of blocks is the constant $bound (keeps the iterator length concrete for CBMC)
            let n: u8 = if $exact { $bound } else { n };
            assume(n <= $bound);
            let s = sp3(n, a0, a1, b0, b1, c0, c1);
            // arbitrary non-empty blocks, overlapping / adjacent / repeated as they come
            assume(blocks_ok(&s) && sorted_by_lo(&s) == $sorted);
            let c = OwnedChain::<AsBlock>::from_iter(mkvec(&s, va));
            let r = view(c.as_slice());
            assert!(canonical(&r), "from_iter is canonical");
            assert!(has(&r, x) == has(&s, x), "x in from_iter(blocks) <==> x in some block");
            assert!(canonical_variants(c.as_slice()), "from_iter re-creates every block with Block::new (Id iff single number)");
        }}
    }}
    //@harness chain_kb_from_iter_sorted_n3 Kb fn=OwnedChain::from_iter bound="at most 3 input blocks, ascending lower bounds (fast path), bounds and probe symbolic" timeout=900
    from_iter_body!(chain_kb_from_iter_sorted_n3, 5, 3, false, true, #[kani::stub(crate::repository::resources::chain::from_iter_unsorted, no_unsorted)]);
    //@harness chain_kb_from_iter_unsorted_n2 Kb fn=OwnedChain::from_iter,from_iter_unsorted,merge_or_add_block bound="exactly 2 input blocks, the second starts below the first (slow path), bounds and probe symbolic" timeout=900
    from_iter_body!(chain_kb_from_iter_unsorted_n2, 4, 2, true, false);
    //@harness chain_kb_from_iter_unsorted_n3 Kb fn=OwnedChain::from_iter,from_iter_unsorted,merge_or_add_block bound="exactly 3 input blocks, lower bounds not ascending (slow path), bounds and probe symbolic" timeout=1800 thorough
    from_iter_body!(chain_kb_from_iter_unsorted_n3, 5, 3, true, false);
}
//@end
