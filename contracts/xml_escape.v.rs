// Unit xml_escape, Verus side (C09): TextEscape::write_escaped (src/xml/encode.rs) for texts of ANY length.
// (The Kani side, xml_escape.k.rs, proves the replacement table complete over all 512 (mode, octet) pairs and
// cross-checks write_escaped on the compiled code for texts of at most 2 / 4 / 6 octets - bounded.)
// Verified on the real body: what reaches the target is exactly esc(mode, text) - every octet either copied or
// replaced by its entity, in order, nothing else; on an I/O error the error is returned.  Spec-level lemmas:
// esc distributes over concatenation, and un-escaping (recognising the five predefined entities, refusing a raw
// special character) gives the text back: lemma_unescape_roundtrip - so the output holds no raw `<`, `&` (and in
// attribute mode no raw `>`, `"`, `'`) and denotes the input.
// R12 call-shape specialisations (Verus rejects iterator adapters and break-with-value; each listed in .trusted):
//   `s.iter().enumerate().map(|(idx, ch)| { (idx, self.replace_char(*ch)) })`  ->  `esc_iter(self, s)`: an environment
//       iterator whose next() yields (position, replace_char(octet at position)) in order - the std semantics of
//       iter().enumerate().map(f) with exactly this closure;
//   `let end = loop {` / `break idx;`  ->  `let end: usize; loop {` / `{ end = idx; break; }`;
//   `target: &mut impl io::Write` -> the environment sink with a ghost `written()`.
// replace_char is a stand-in whose contract is the one Kani proves on the compiled function (xml_replace_char).
use vstd::prelude::*;

verus! {

pub mod io {
    use super::*;
    #[verifier::external_body]
    pub struct Error { _o: u8 }
}
/// the octets of a `&str` (std `str::as_bytes`)
pub uninterp spec fn str_bytes(s: &str) -> Seq<u8>;
/// stands for std `str::as_bytes` (R12: `repl.as_bytes()` -> `str_octets(repl)`; vstd's own specification of as_bytes
/// speaks about Seq<char>, the replacement table is stated over octets)
#[verifier::external_body]
pub fn str_octets(s: &str) -> (r: &[u8]) ensures r@ == str_bytes(s) { unimplemented!() }

/// an `io::Write` target: ghost view = everything written so far
#[verifier::external_body]
pub struct Sink { _o: u8 }
impl Sink {
    pub uninterp spec fn written(&self) -> Seq<u8>;
    /// std `Write::write_all`: on Ok the whole buffer has been appended
    #[verifier::external_body]
    pub fn write_all(&mut self, buf: &[u8]) -> (r: Result<(), io::Error>)
        ensures r is Ok ==> final(self).written() == old(self).written() + buf@
    { unimplemented!() }
}

//@item src/xml/encode.rs :: pub enum TextEscape keepderive=Clone,Copy

// ---- specification: XML 1.0 sections 2.4 / 4.6 -----------------------------------------------------
pub open spec fn is_attr(m: TextEscape) -> bool { m is Attr }
pub open spec fn must_escape(m: TextEscape, c: u8) -> bool {
    c == 0x3c || c == 0x26 || (is_attr(m) && (c == 0x22 || c == 0x27 || c == 0x3e))
}
/// the predefined entity of a character
pub open spec fn entity(c: u8) -> Seq<u8> {
    if c == 0x3c { seq![0x26u8, 0x6c, 0x74, 0x3b] }                  // &lt;
    else if c == 0x3e { seq![0x26u8, 0x67, 0x74, 0x3b] }             // &gt;
    else if c == 0x26 { seq![0x26u8, 0x61, 0x6d, 0x70, 0x3b] }       // &amp;
    else if c == 0x22 { seq![0x26u8, 0x71, 0x75, 0x6f, 0x74, 0x3b] } // &quot;
    else { seq![0x26u8, 0x61, 0x70, 0x6f, 0x73, 0x3b] }              // &apos;
}
pub open spec fn esc1(m: TextEscape, c: u8) -> Seq<u8> { if must_escape(m, c) { entity(c) } else { seq![c] } }
/// the escaped form of a text
pub open spec fn esc(m: TextEscape, s: Seq<u8>) -> Seq<u8>
    decreases s.len()
{
    if s.len() == 0 { Seq::empty() } else { esc1(m, s[0]) + esc(m, s.drop_first()) }
}
pub open spec fn plain(m: TextEscape, s: Seq<u8>) -> bool { forall|i: int| 0 <= i < s.len() ==> !must_escape(m, #[trigger] s[i]) }

/// reading escaped text back: an entity gives its character, a raw special character is refused
pub open spec fn starts_with(o: Seq<u8>, e: Seq<u8>) -> bool { o.len() >= e.len() && o.subrange(0, e.len() as int) == e }
pub open spec fn unesc(m: TextEscape, o: Seq<u8>) -> Option<Seq<u8>>
    decreases o.len()
{
    if o.len() == 0 { Some(Seq::empty()) }
    else if o[0] == 0x26 {
        let c: u8 = if starts_with(o, entity(0x3c)) { 0x3c } else if starts_with(o, entity(0x3e)) { 0x3e }
            else if starts_with(o, entity(0x26)) { 0x26 } else if starts_with(o, entity(0x22)) { 0x22 }
            else if starts_with(o, entity(0x27)) { 0x27 } else { 0 };
        if c == 0 { None } else {
            match unesc(m, o.skip(entity(c).len() as int)) { Some(t) => Some(seq![c] + t), None => None }
        }
    }
    else if must_escape(m, o[0]) { None }
    else { match unesc(m, o.drop_first()) { Some(t) => Some(seq![o[0]] + t), None => None } }
}

pub mod lem {
    use super::*;
    pub proof fn lemma_esc_concat(m: TextEscape, a: Seq<u8>, b: Seq<u8>)
        ensures esc(m, a + b) == esc(m, a) + esc(m, b)
        decreases a.len()
    {
        if a.len() == 0 {
            assert(a + b =~= b);
            assert(esc(m, a) + esc(m, b) =~= esc(m, b));
        } else {
            assert((a + b).drop_first() =~= a.drop_first() + b);
            assert((a + b)[0] == a[0]);
            lemma_esc_concat(m, a.drop_first(), b);
            assert(esc1(m, a[0]) + (esc(m, a.drop_first()) + esc(m, b)) =~= (esc1(m, a[0]) + esc(m, a.drop_first())) + esc(m, b));
        }
    }
    pub proof fn lemma_esc_plain(m: TextEscape, a: Seq<u8>)
        requires plain(m, a)
        ensures esc(m, a) == a
        decreases a.len()
    {
        if a.len() > 0 {
            assert(plain(m, a.drop_first())) by {
                assert forall|i: int| 0 <= i < a.drop_first().len() implies !must_escape(m, #[trigger] a.drop_first()[i]) by {
                    assert(a.drop_first()[i] == a[i + 1]);
                }
            }
            lemma_esc_plain(m, a.drop_first());
            assert(!must_escape(m, a[0]));
            assert(seq![a[0]] + a.drop_first() =~= a);
        }
    }
    pub proof fn lemma_esc_one(m: TextEscape, c: u8)
        ensures esc(m, seq![c]) == esc1(m, c)
    {
        assert(seq![c].drop_first() =~= Seq::<u8>::empty());
        assert(esc(m, seq![c].drop_first()) =~= Seq::<u8>::empty());
        assert(esc1(m, c) + Seq::<u8>::empty() =~= esc1(m, c));
    }
    /// un-escaping the escaped text gives the text back (so the output has no raw special character)
    pub proof fn lemma_unescape_roundtrip(m: TextEscape, s: Seq<u8>)
        ensures unesc(m, esc(m, s)) == Some(s)
        decreases s.len()
    {
        if s.len() > 0 {
            let c = s[0];
            let rest = esc(m, s.drop_first());
            lemma_unescape_roundtrip(m, s.drop_first());
            let o = esc(m, s);
            assert(o == esc1(m, c) + rest);
            if must_escape(m, c) {
                let e = entity(c);
                assert(o.subrange(0, e.len() as int) =~= e);
                assert(o.skip(e.len() as int) =~= rest);
                assert(o[0] == 0x26);
                // the five entities differ pairwise in their second or third octet
                assert(e[1] == o[1] && e[2] == o[2]);
                assert(starts_with(o, entity(c)));
                assert(c != 0x3c ==> !starts_with(o, entity(0x3c))) by { if c != 0x3c && starts_with(o, entity(0x3c)) { assert(o.subrange(0, 4)[1] == o[1]); assert(o.subrange(0, 4)[2] == o[2]); } }
                assert(c != 0x3e ==> !starts_with(o, entity(0x3e))) by { if c != 0x3e && starts_with(o, entity(0x3e)) { assert(o.subrange(0, 4)[1] == o[1]); assert(o.subrange(0, 4)[2] == o[2]); } }
                assert(c != 0x26 ==> !starts_with(o, entity(0x26))) by { if c != 0x26 && starts_with(o, entity(0x26)) { assert(o.subrange(0, 5)[1] == o[1]); assert(o.subrange(0, 5)[2] == o[2]); } }
                assert(c != 0x22 ==> !starts_with(o, entity(0x22))) by { if c != 0x22 && starts_with(o, entity(0x22)) { assert(o.subrange(0, 6)[1] == o[1]); assert(o.subrange(0, 6)[2] == o[2]); } }
                assert(seq![c] + s.drop_first() =~= s);
            } else {
                assert(o[0] == c && c != 0x26);
                assert(o.drop_first() =~= rest);
                assert(seq![c] + s.drop_first() =~= s);
            }
        }
    }
}

// ---- environment: the iterator pipeline of write_escaped (R12) ---------------------------------------
/// stands for `s.iter().enumerate().map(|(idx, ch)| { (idx, self.replace_char(*ch)) })`
#[verifier::external_body]
pub struct EscIter<'a> { _o: &'a u8 }
impl<'a> EscIter<'a> {
    pub uninterp spec fn mode(&self) -> TextEscape;
    pub uninterp spec fn text(&self) -> Seq<u8>;
    pub uninterp spec fn pos(&self) -> int;
    /// std: enumerate() counts from 0 in step with iter(); map applies the closure to each pair in order
    #[verifier::external_body]
    pub fn next(&mut self) -> (r: Option<(usize, Option<&'static str>)>)
        ensures
            final(self).mode() == old(self).mode(), final(self).text() == old(self).text(),
            old(self).pos() >= old(self).text().len() ==> r is None && final(self).pos() == old(self).pos(),
            old(self).pos() < old(self).text().len() ==> final(self).pos() == old(self).pos() + 1 && (r matches Some((idx, rep)) && idx == old(self).pos()
                && (rep is Some <==> must_escape(old(self).mode(), old(self).text()[old(self).pos()]))
                && (rep matches Some(t) ==> str_bytes(t) == entity(old(self).text()[old(self).pos()]))),
    { unimplemented!() }
}
#[verifier::external_body]
pub fn esc_iter<'a>(mode: TextEscape, s: &'a [u8]) -> (r: EscIter<'a>)
    ensures r.mode() == mode, r.text() == s@, r.pos() == 0
{ unimplemented!() }

impl TextEscape {
    #[verifier::loop_isolation(false)]
    #[verifier::allow_complex_invariants]
    //@fn src/xml/encode.rs :: impl TextEscape :: write_escaped
    //@sigsub R12 "target: &mut impl io::Write" "target: &mut Sink"
    //@sub R12 "s.iter().enumerate().map(|(idx, ch)| {\n                (idx, self.replace_char(*ch))\n            })" "esc_iter(self, s)\n\n            "
    //@sub R12 "repl.as_bytes()" "str_octets(repl)"
    //@sub R12 "let end = loop {" "let end: usize; loop {"
    //@sub R12 "break idx;" "{ end = idx; break; }"
    //@spec
        ensures r is Ok ==> final(target).written() == old(target).written() + esc(self, s@),
    //@/spec
    //@ghost begin
        let ghost orig = s@;
        let ghost w0 = target.written();
    //@/ghost
    //@ghost before "return target.write_all(s);"
                        proof {
                            let pre = orig.subrange(0, orig.len() - s@.len());
                            assert(s@.subrange(0, iter.pos()) =~= s@);
                            lem::lemma_esc_plain(self, s@);
                            lem::lemma_esc_concat(self, pre, s@);
                            assert(pre + s@ =~= orig);
                            assert((w0 + esc(self, pre)) + s@ =~= w0 + (esc(self, pre) + s@));
                        }
    //@/ghost
    //@ghost before "{ end = idx; break; }"
                        proof {
                            let pre = orig.subrange(0, orig.len() - s@.len());
                            let a = s@.subrange(0, idx as int);
                            let c = s@[idx as int];
                            lem::lemma_esc_plain(self, a);
                            lem::lemma_esc_one(self, c);
                            lem::lemma_esc_concat(self, a, seq![c]);
                            lem::lemma_esc_concat(self, pre, a + seq![c]);
                            assert(pre + (a + seq![c]) =~= orig.subrange(0, orig.len() - s@.len() + idx + 1));
                            assert(((w0 + esc(self, pre)) + a) + entity(c) =~= w0 + (esc(self, pre) + (a + entity(c))));
                        }
    //@/ghost
    //@ghost after "Some((_, None)) => {"
                        proof {
                            assert forall|i: int| 0 <= i < iter.pos() implies !must_escape(self, #[trigger] s@.subrange(0, iter.pos())[i]) by {
                                if i < iter.pos() - 1 { assert(s@.subrange(0, iter.pos() - 1)[i] == s@[i]); }
                            }
                        }
    //@/ghost
    //@ghost before "s = &s[end + 1..];"
            proof { assert(s.len() == s@.len()); }
    //@/ghost
    //@loop "while !s.is_empty()"
        invariant
            s@.len() <= orig.len(),
            s@ == orig.subrange(orig.len() - s@.len(), orig.len() as int),
            target.written() == w0 + esc(self, orig.subrange(0, orig.len() - s@.len())),
        decreases s@.len(),
    //@/loop
    //@loop "loop"
        invariant
            iter.mode() == self, iter.text() == s@, 0 <= iter.pos() <= s@.len(),
            plain(self, s@.subrange(0, iter.pos())),
            s@.len() > 0,
            s@.len() <= orig.len(),
            s@ == orig.subrange(orig.len() - s@.len(), orig.len() as int),
            target.written() == w0 + esc(self, orig.subrange(0, orig.len() - s@.len())),
        ensures
            end < s@.len(),
            target.written() == w0 + esc(self, orig.subrange(0, orig.len() - s@.len() + end + 1)),
        decreases s@.len() - iter.pos(),
    //@/loop
    //@end
}

proof fn reach_escape(m: TextEscape)
    ensures esc(m, seq![0x3cu8]) == entity(0x3c)
{
    lem::lemma_esc_one(m, 0x3c);
}

} // verus!
fn main() {}
