// Unit asn_set (C13): SmallAsnSet::from_iter (src/resources/asn.rs) yields a sorted,
// duplicate-free vector with exactly the input's elements; `contains` agrees.
#![feature(allocator_api)]
use vstd::prelude::*;
use vstd::std_specs::cmp::*;
use core::cmp::Ordering;

verus! {

//@item src/resources/asn.rs :: pub struct Asn pubfields keepderive=Clone,Copy,Eq,Ord,PartialEq,PartialOrd
//@item src/resources/asn.rs :: pub struct SmallAsnSet pubfields

pub mod lem {
use super::*;
// ---- specification vocabulary ------------------------------------------------
pub open spec fn nondecreasing(s: Seq<Asn>) -> bool {
    forall|i: int, j: int| 0 <= i < j < s.len() ==> s[i].0 <= s[j].0
}
pub open spec fn strictly_increasing(s: Seq<Asn>) -> bool {
    forall|i: int, j: int| 0 <= i < j < s.len() ==> s[i].0 < s[j].0
}
/// std `Vec::dedup`: all but the first of each run of consecutive equal elements removed
pub open spec fn dedup_spec<T: PartialEq>(s: Seq<T>) -> Seq<T>
    decreases s.len()
{
    if s.len() <= 1 { s }
    else {
        let rest = dedup_spec(s.drop_last());
        if s[s.len() - 2].eq_spec(&s.last()) { rest } else { rest.push(s.last()) }
    }
}

// ---- assumed contracts of std (listed in asn_set.trusted) ---------------------
pub assume_specification<T: Ord> [ <[T]>::sort ] (s: &mut [T])
    ensures
        final(s)@.to_multiset() == old(s)@.to_multiset(),
        forall|i: int, j: int| 0 <= i < j < final(s)@.len() ==>
            (#[trigger] final(s)@[i]).cmp_spec(#[trigger] &final(s)@[j]) != Ordering::Greater;

pub assume_specification<T: Ord> [ <[T]>::sort_unstable ] (s: &mut [T])
    ensures
        final(s)@.to_multiset() == old(s)@.to_multiset(),
        forall|i: int, j: int| 0 <= i < j < final(s)@.len() ==>
            (#[trigger] final(s)@[i]).cmp_spec(#[trigger] &final(s)@[j]) != Ordering::Greater;

pub assume_specification<T: PartialOrd> [ <[T]>::is_sorted ] (s: &[T]) -> (r: bool)
    ensures r == (forall|i: int| 0 <= i < s@.len() - 1 ==>
            (#[trigger] s@[i]).partial_cmp_spec(&s@[i + 1]) == Some(Ordering::Less) || s@[i].partial_cmp_spec(&s@[i + 1]) == Some(Ordering::Equal));

pub assume_specification<T: PartialEq, A: core::alloc::Allocator> [ Vec::<T, A>::dedup ] (v: &mut Vec<T, A>)
    ensures final(v)@ == dedup_spec(old(v)@);

/// std `slice::binary_search` on a slice sorted by `Ord`: `Ok(i)` names an equal element, `Err(_)` means
/// there is none (std documentation; the position conventions are not needed here)
pub assume_specification<T: Ord> [ <[T]>::binary_search ] (s: &[T], x: &T) -> (r: Result<usize, usize>)
    requires forall|i: int, j: int| 0 <= i < j < s@.len() ==> (#[trigger] s@[i]).cmp_spec(#[trigger] &s@[j]) != Ordering::Greater,
    ensures
        r matches Ok(i) ==> i < s@.len() && s@[i as int].cmp_spec(x) == Ordering::Equal,
        r matches Err(_) ==> forall|i: int| 0 <= i < s@.len() ==> (#[trigger] s@[i]).cmp_spec(x) != Ordering::Equal;

/// derive(PartialEq, Eq, PartialOrd, Ord) on `struct Asn(u32)` is the order / equality of the
/// wrapped u32.  Assumed here; proved on the compiled type by Kani harness asn_ord_is_u32.
#[verifier::external_body]
pub broadcast proof fn axiom_asn_derived_ord()
    ensures
        #[trigger] <Asn as OrdSpec>::obeys_cmp_spec(), #[trigger] <Asn as PartialEqSpec>::obeys_eq_spec(),
        forall|a: Asn, b: Asn| #[trigger] a.cmp_spec(&b) == (if a.0 < b.0 { Ordering::Less } else if a.0 == b.0 { Ordering::Equal } else { Ordering::Greater }),
        forall|a: Asn, b: Asn| #[trigger] a.eq_spec(&b) == (a.0 == b.0),
{}
/// a sequence sorted by Ord of Asn is non-decreasing in the numbers
pub broadcast proof fn lemma_sorted_is_nondecreasing(s: Seq<Asn>)
    requires forall|i: int, j: int| 0 <= i < j < s.len() ==> (#[trigger] s[i]).cmp_spec(#[trigger] &s[j]) != Ordering::Greater,
    ensures #[trigger] nondecreasing(s),
{
    broadcast use axiom_asn_derived_ord;
}

// ---- lemmas --------------------------------------------------------------------
pub broadcast proof fn lemma_dedup_sorted(s: Seq<Asn>)
    requires nondecreasing(s),
    ensures
        strictly_increasing(#[trigger] dedup_spec(s)),
        dedup_spec(s).to_set() == s.to_set(),
        s.len() > 0 ==> dedup_spec(s).len() > 0 && dedup_spec(s).last() == s.last(),
        s.len() == 0 ==> dedup_spec(s).len() == 0,
    decreases s.len(),
{
    broadcast use axiom_asn_derived_ord;
    if s.len() <= 1 {
    } else {
        let p = s.drop_last();
        assert(nondecreasing(p));
        lemma_dedup_sorted(p);
        let rest = dedup_spec(p);
        let d = dedup_spec(s);
        assert(s == p.push(s.last()));
        assert(p.last() == s[s.len() - 2]);
        if s[s.len() - 2].eq_spec(&s.last()) {
            assert(d == rest);
            assert(s.last() == p.last());
            assert forall|x: Asn| s.to_set().contains(x) <==> p.to_set().contains(x) by {
                if s.contains(x) {
                    let i = choose|i: int| 0 <= i < s.len() && s[i] == x;
                    if i == s.len() - 1 { assert(p[p.len() - 1] == x); assert(p.contains(x)); } else { assert(p[i] == x); assert(p.contains(x)); }
                }
                if p.contains(x) {
                    let i = choose|i: int| 0 <= i < p.len() && p[i] == x;
                    assert(s[i] == x);
                    assert(s.contains(x));
                }
            }
            assert(d.to_set() =~= s.to_set());
        } else {
            assert(d == rest.push(s.last()));
            assert(rest.last() == p.last());
            assert(p.last().0 < s.last().0);
            assert forall|i: int, j: int| 0 <= i < j < d.len() implies d[i].0 < d[j].0 by {
                if j == d.len() - 1 {
                    // d[i] is in rest, all of rest <= rest.last() < s.last()
                    assert(d[i] == rest[i]);
                    if i < rest.len() - 1 { assert(rest[i].0 < rest[rest.len() - 1].0); }
                } else {
                    assert(d[i] == rest[i] && d[j] == rest[j]);
                }
            }
            assert forall|x: Asn| d.to_set().contains(x) <==> s.to_set().contains(x) by {
                if d.contains(x) {
                    let i = choose|i: int| 0 <= i < d.len() && d[i] == x;
                    if i == d.len() - 1 { assert(s[s.len() - 1] == x); assert(s.contains(x)); }
                    else {
                        assert(rest[i] == x); assert(rest.contains(x)); assert(rest.to_set().contains(x));
                        assert(p.to_set().contains(x)); assert(p.contains(x));
                        let k = choose|k: int| 0 <= k < p.len() && p[k] == x;
                        assert(s[k] == x); assert(s.contains(x));
                    }
                }
                if s.contains(x) {
                    let i = choose|i: int| 0 <= i < s.len() && s[i] == x;
                    if i == s.len() - 1 { assert(d[d.len() - 1] == x); assert(d.contains(x)); }
                    else {
                        assert(p[i] == x); assert(p.contains(x)); assert(p.to_set().contains(x));
                        assert(rest.to_set().contains(x)); assert(rest.contains(x));
                        let k = choose|k: int| 0 <= k < rest.len() && rest[k] == x;
                        assert(d[k] == x); assert(d.contains(x));
                    }
                }
            }
            assert(d.to_set() =~= s.to_set());
        }
    }
}

pub broadcast proof fn lemma_multiset_same_set(a: Seq<Asn>, b: Seq<Asn>)
    requires #[trigger] a.to_multiset() == #[trigger] b.to_multiset(),
    ensures a.to_set() == b.to_set(),
{
    broadcast use vstd::seq_lib::group_to_multiset_ensures;
    assert forall|x: Asn| a.to_set().contains(x) <==> b.to_set().contains(x) by {
        a.to_multiset_ensures();
        b.to_multiset_ensures();
        assert(a.contains(x) <==> a.to_multiset().count(x) > 0);
        assert(b.contains(x) <==> b.to_multiset().count(x) > 0);
    }
    assert(a.to_set() =~= b.to_set());
}

} // mod lem
pub use lem::*;
broadcast use {lem::axiom_asn_derived_ord, lem::lemma_sorted_is_nondecreasing, lem::lemma_dedup_sorted, lem::lemma_multiset_same_set};

impl SmallAsnSet {
    //@fn src/resources/asn.rs :: impl iter::FromIterator<Asn> for SmallAsnSet :: from_iter
    //@sigsub R12 "<T: IntoIterator<Item = Asn>>(iter: T)" "(iter: Vec<Asn>)"
    //@sub R12 "iter.into_iter().collect()" "iter"
    //@spec
        ensures
            strictly_increasing(r.0@),
            r.0@.to_set() == iter@.to_set(),
    //@/spec
    //@end
}

impl SmallAsnSet {
    /// membership by binary search agrees with the set, given the data-structure invariant that from_iter
    /// establishes (strictly increasing)
    //@fn src/resources/asn.rs :: impl SmallAsnSet :: contains
    //@spec
        requires strictly_increasing(self.0@),
        ensures r == self.0@.to_set().contains(asn),
    //@/spec
    //@ghost begin
        proof {
            broadcast use axiom_asn_derived_ord;
            assert forall|i: int| 0 <= i < self.0@.len() implies ((#[trigger] self.0@[i]).cmp_spec(&asn) == Ordering::Equal) == (self.0@[i] == asn) by {}
            assert(self.0@.to_set().contains(asn) == self.0@.contains(asn));
        }
    //@/ghost
    //@end
}

proof fn reach_from_iter() { let s: Seq<Asn> = seq![Asn(1), Asn(1)]; assert(s.len() == 2); }

} // verus!
fn main() {}
