// Unit slurm_w (C15): WITNESS SEARCH ONLY (kind W) - proves nothing, never counted.
// The Verus unit slurm proves the drop decision and the assertion -> payload functions on extracted text
// (Prefix::covers through its contract, proved by the Kani unit addr_prefix); the JSON round trip is decided
// by no contract.  This unit is the anchor-free last line: the COMPILED functions run natively on biased
// random local-exceptions files and payload items.  Filters are generated RELATIVE to the payload (same /
// less specific / more specific with the same first address / sibling / other-family prefix, equal /
// adjacent / one-bit-off AS number and key identifier, absent criteria) so that both verdicts and all the
// boundaries are reached; the expected verdict is computed on a plain-integer model written down from the
// property ("exists a filter of the payload's kind with at least one criterion whose present criteria all
// match"; "covers" = same family and address range containment on integers).  The round trip serialises
// random files (all optional fields present / absent, max length absent / equal to / greater than the
// prefix length, odd comments, key infos of every length mod 3, unsorted provider lists) and compares the
// re-parsed file with the original AND field by field with the model.  Only public functions are called.
//@features ca,rtr,slurm

//@append src/slurm.rs
#[cfg(any(kani, verif_replay))]
#[allow(dead_code, unused)]
mod verif_slurm_w {
    use super::*;
    use crate::verif_support::{assume, reach};
    use std::net::{IpAddr, Ipv4Addr, Ipv6Addr};

    /// deterministic value stream (splitmix64) seeded from the harness inputs: structure choices
    struct G(u64);
    impl G {
        fn next(&mut self) -> u64 {
            self.0 = self.0.wrapping_add(0x9E3779B97F4A7C15);
            let mut z = self.0;
            z = (z ^ (z >> 30)).wrapping_mul(0xBF58476D1CE4E5B9);
            z = (z ^ (z >> 27)).wrapping_mul(0x94D049BB133111EB);
            z ^ (z >> 31)
        }
        fn below(&mut self, n: u64) -> u64 { self.next() % n }
        fn pct(&mut self, p: u64) -> bool { self.below(100) < p }
        fn wide(&mut self) -> u128 { (self.next() as u128) << 64 | self.next() as u128 }
    }

    // ---- the model: plain integers -----------------------------------------------------------------
    /// a prefix: family, length, first address as an integer of the family's width (host bits zero)
    #[derive(Clone, Copy, PartialEq, Eq)]
    struct P { v4: bool, len: u8, addr: u128 }
    impl P {
        fn new(v4: bool, len: u8, raw: u128) -> P {
            let p = P { v4, len, addr: 0 };
            P { v4, len, addr: (if v4 { raw & 0xFFFF_FFFF } else { raw }) & !p.host() }
        }
        fn width(&self) -> u8 { if self.v4 { 32 } else { 128 } }
        /// the host bits of the prefix
        fn host(&self) -> u128 {
            let full = if self.v4 { 0xFFFF_FFFFu128 } else { u128::MAX };
            if self.len == self.width() { 0 } else { full >> self.len }
        }
        /// the k-th bit counted from the top of the address (k < width)
        fn bit(&self, k: u8) -> u128 { 1u128 << (self.width() - 1 - k) }
        fn last(&self) -> u128 { self.addr | self.host() }
        fn real(&self) -> Prefix {
            if self.v4 { Prefix::new_v4(Ipv4Addr::from(self.addr as u32), self.len).unwrap() }
            else { Prefix::new_v6(Ipv6Addr::from(self.addr), self.len).unwrap() }
        }
    }
    impl fmt::Debug for P {
        fn fmt(&self, f: &mut fmt::Formatter) -> fmt::Result {
            if self.v4 { write!(f, "{}/{}", Ipv4Addr::from(self.addr as u32), self.len) }
            else { write!(f, "{}/{}", Ipv6Addr::from(self.addr), self.len) }
        }
    }
    /// "the filter's prefix covers the origin's prefix": same family, address range contained
    fn covers_ref(f: &P, o: &P) -> bool { f.v4 == o.v4 && f.addr <= o.addr && o.last() <= f.last() }
    /// the real prefix is the model prefix (read through the public accessors only)
    fn pfx_is(r: Prefix, p: &P) -> bool {
        r.is_v4() == p.v4 && r.len() == p.len && match r.addr() {
            IpAddr::V4(x) => p.v4 && u32::from(x) as u128 == p.addr,
            IpAddr::V6(x) => !p.v4 && u128::from(x) == p.addr,
        }
    }

    #[derive(Clone, Debug)]
    struct PF { prefix: Option<P>, asn: Option<u32>, c: Option<String> }
    #[derive(Clone, Debug)]
    struct BF { ski: Option<[u8; 20]>, asn: Option<u32>, c: Option<String> }
    #[derive(Clone, Debug)]
    struct AF { cust: Option<u32>, c: Option<String> }
    #[derive(Clone, Debug)]
    struct PA { p: P, ml: Option<u8>, asn: u32, c: Option<String> }
    #[derive(Clone, Debug)]
    struct BA { asn: u32, ski: [u8; 20], info: Vec<u8>, c: Option<String> }
    #[derive(Clone, Debug)]
    struct AA { cust: u32, prov: Vec<u32>, c: Option<String> }
    /// a payload item
    #[derive(Clone, Debug)]
    enum Pay { Origin(P, Option<u8>, u32), Key([u8; 20], u32, Vec<u8>), Aspa(u32, Vec<u32>) }

    // the property, per filter: at least one criterion, and every present criterion matches
    impl PF { fn matches(&self, p: &Pay) -> bool { match p {
        Pay::Origin(op, _, oasn) => (self.prefix.is_some() || self.asn.is_some())
            && self.prefix.map_or(true, |fp| covers_ref(&fp, op)) && self.asn.map_or(true, |a| a == *oasn),
        _ => false } } }
    impl BF { fn matches(&self, p: &Pay) -> bool { match p {
        Pay::Key(ski, kasn, _) => (self.ski.is_some() || self.asn.is_some())
            && self.ski.map_or(true, |s| s == *ski) && self.asn.map_or(true, |a| a == *kasn),
        _ => false } } }
    impl AF { fn matches(&self, p: &Pay) -> bool { match p {
        Pay::Aspa(cust, _) => self.cust == Some(*cust),
        _ => false } } }

    // ---- model -> real values, through the public constructors -------------------------------------
    fn asn(x: u32) -> Asn { Asn::from_u32(x) }
    fn providers(v: &[u32]) -> ProviderAsns { ProviderAsns::try_from_iter(v.iter().map(|x| asn(*x))).unwrap() }
    impl PF { fn real(&self) -> PrefixFilter { PrefixFilter::new(self.prefix.map(|p| p.real()), self.asn.map(asn), self.c.clone()) } }
    impl BF { fn real(&self) -> BgpsecFilter { BgpsecFilter::new(self.ski.map(KeyIdentifier::from), self.asn.map(asn), self.c.clone()) } }
    impl AF { fn real(&self) -> AspaFilter { AspaFilter::new(self.cust.map(asn), self.c.clone()) } }
    impl PA { fn real(&self) -> PrefixAssertion { PrefixAssertion::new(MaxLenPrefix::new(self.p.real(), self.ml).unwrap(), asn(self.asn), self.c.clone()) } }
    impl BA { fn real(&self) -> BgpsecAssertion { BgpsecAssertion::new(asn(self.asn), KeyIdentifier::from(self.ski), Base64KeyInfo::try_from(self.info.clone()).unwrap(), self.c.clone()) } }
    impl AA { fn real(&self) -> AspaAssertion { AspaAssertion::new(asn(self.cust), providers(&self.prov), self.c.clone()) } }
    impl Pay { fn real(&self) -> rtr::Payload { match self {
        Pay::Origin(p, ml, a) => rtr::Payload::origin(MaxLenPrefix::new(p.real(), *ml).unwrap(), asn(*a)),
        Pay::Key(ski, a, info) => rtr::Payload::router_key(KeyIdentifier::from(*ski), asn(*a), RouterKeyInfo::try_from(info.clone()).unwrap()),
        Pay::Aspa(c, prov) => rtr::Payload::aspa(asn(*c), providers(prov)),
    } } }
    fn real_filters(pf: &[PF], bf: &[BF], af: &Option<Vec<AF>>) -> ValidationOutputFilters {
        ValidationOutputFilters {
            prefix: pf.iter().map(|f| f.real()).collect(),
            bgpsec: bf.iter().map(|f| f.real()).collect(),
            aspa: af.as_ref().map(|v| v.iter().map(|f| f.real()).collect()),
        }
    }

    // ---- generators --------------------------------------------------------------------------------
    fn glen(g: &mut G, w: u8) -> u8 {
        if g.pct(35) { [0, 1, 7, 8, 9, w / 2, w - 1, w][g.below(8) as usize] } else { g.below(w as u64 + 1) as u8 }
    }
    fn gaddr(g: &mut G, a: u128, v4: bool) -> u128 {
        let raw = match g.below(5) { 0 => a, 1 => a.reverse_bits(), 2 => !a, _ => g.wide() };
        if v4 && g.pct(50) { raw >> 96 } else { raw }
    }
    fn gprefix(g: &mut G, a: u128, v4: bool) -> P { let w = if v4 { 32 } else { 128 }; let l = glen(g, w); let r = gaddr(g, a, v4); P::new(v4, l, r) }
    /// max length: absent, equal to the prefix length, greater (up to the family's width)
    fn gmaxlen(g: &mut G, p: &P) -> Option<u8> {
        match g.below(3) { 0 => None, 1 => Some(p.len), _ => Some(p.len + g.below((p.width() - p.len) as u64 + 1) as u8) }
    }
    /// a prefix related to t: the cases that decide "covers"
    fn rel_prefix(g: &mut G, t: &P, a2: u128) -> P {
        let w = t.width();
        match g.below(14) {
            // identical
            0 | 1 => *t,
            // less (or equally) specific, covering
            2 | 3 | 4 => P::new(t.v4, g.below(t.len as u64 + 1) as u8, t.addr),
            // less specific with one bit inside the new length flipped: unrelated
            5 => { let l = g.below(t.len as u64 + 1) as u8; if l == 0 { P::new(t.v4, 0, 0) } else { let k = if g.pct(50) { l - 1 } else { g.below(l as u64) as u8 }; P::new(t.v4, l, t.addr ^ t.bit(k)) } }
            // more specific with the same first address: never covers
            6 | 7 => P::new(t.v4, t.len + g.below((w - t.len) as u64 + 1) as u8, t.addr),
            // more specific, somewhere inside (first, last or any sub-prefix)
            8 => { let l = t.len + g.below((w - t.len) as u64 + 1) as u8; let fill = match g.below(3) { 0 => t.host(), 1 => 1, _ => g.wide() }; P::new(t.v4, l, t.addr | (fill & t.host())) }
            // same length, one bit flipped (mostly the last one: the neighbour)
            9 => if t.len == 0 { *t } else { let k = if g.pct(60) { t.len - 1 } else { g.below(t.len as u64) as u8 }; P::new(t.v4, t.len, t.addr ^ t.bit(k)) },
            // the other family with the same leading bits and a length that would cover
            10 | 11 => {
                let top = if t.v4 { t.addr << 96 } else { t.addr };
                let l = (g.below(t.len as u64 + 1) as u8).min(if t.v4 { 128 } else { 32 });
                P::new(!t.v4, l, if t.v4 { top } else { top >> 96 })
            }
            // unrelated
            12 => gprefix(g, a2, t.v4),
            _ => { let v4 = g.pct(50); gprefix(g, a2, v4) }
        }
    }
    /// an AS number related to t: equal, adjacent, one bit off (any position), unrelated
    fn rel_asn(g: &mut G, t: u32, other: u32) -> u32 {
        match g.below(9) { 0 | 1 | 2 | 3 => t, 4 => t.wrapping_add(1), 5 => t.wrapping_sub(1), 6 | 7 => t ^ (1u32 << g.below(32)), _ => other }
    }
    fn opt_asn(g: &mut G, t: u32, other: u32) -> Option<u32> { if g.pct(30) { None } else { Some(rel_asn(g, t, other)) } }
    /// a key identifier related to t: equal, one bit off (first / last octet / anywhere), unrelated
    fn rel_ski(g: &mut G, t: &[u8; 20]) -> [u8; 20] {
        let mut s = *t;
        match g.below(9) {
            0 | 1 | 2 | 3 => {}
            4 => s[19] ^= 1 << g.below(8),
            5 => s[0] ^= 1 << g.below(8),
            6 | 7 => s[g.below(20) as usize] ^= 1 << g.below(8),
            _ => for b in s.iter_mut() { *b = g.next() as u8 },
        }
        s
    }
    fn gski(g: &mut G, raw: &[u8; 20]) -> [u8; 20] {
        let mut s = *raw;
        match g.below(4) { 0 => {} 1 => s = [0xff; 20], 2 => s = [0; 20], _ => for b in s.iter_mut() { *b = g.next() as u8 } }
        s
    }
    /// octets whose unpadded URL-safe Base64 text has every length mod 4 and uses '-' and '_'
    fn gbytes(g: &mut G, max: u64) -> Vec<u8> {
        let n = g.below(max + 1);
        let m = g.below(4);
        (0..n).map(|_| match m { 0 => 0xff, 1 => 0xfb, 2 => 0, _ => g.next() as u8 }).collect()
    }
    fn gprov(g: &mut G, t: u32, other: u32) -> Vec<u32> { let n = g.below(6); (0..n).map(|_| rel_asn(g, t, other)).collect() }
    const CH: &[char] = &['a', 'Z', '0', ' ', '"', '\\', '/', '\n', '\t', '\r', '\u{0}', '\u{1f}', '\u{7f}', '\u{e9}', '\u{2028}', '\u{feff}', '\u{1f600}', '{', '}', '[', ':', ',', '\'', 'n', 'u'];
    /// a comment: absent, empty, or text that needs JSON escaping
    fn gcomment(g: &mut G, t: &[u8]) -> Option<String> {
        if g.pct(35) { return None }
        let n = g.below(t.len() as u64 + 1) as usize;
        Some(t[..n].iter().map(|b| CH[(*b as usize + g.below(CH.len() as u64) as usize) % CH.len()]).collect())
    }

    //@harness slurm_w_drop W fn=SlurmFile::drop_payload,ValidationOutputFilters::drop_payload,PrefixFilter::{drop_origin,drop_payload},BgpsecFilter::{drop_router_key,drop_payload},AspaFilter::{drop_aspa,drop_payload},Prefix::covers n=150000 timeout=600
    verif_search!{ slurm_w_drop; |s0: u64, s1: u64, fam: bool, plen: u8, a: u128, a2: u128, n1: u32, n2: u32, ski: [u8; 20]| {
        let mut g = G(s0 ^ s1.rotate_left(31) ^ (a as u64).rotate_left(7) ^ ((n1 as u64) << 32) ^ n2 as u64 ^ (plen as u64) << 17);
        // the payload item: an origin (v4 / v6, max length absent / equal / greater), a router key or an ASPA
        let w = if fam { 32u8 } else { 128 };
        let tp = { let l = if g.pct(50) { plen % (w + 1) } else { glen(&mut g, w) }; let r = gaddr(&mut g, a, fam); P::new(fam, l, r) };
        let tski = gski(&mut g, &ski);
        let pay = match g.below(8) {
            0 | 1 | 2 | 3 => Pay::Origin(tp, gmaxlen(&mut g, &tp), n1),
            4 | 5 => Pay::Key(tski, n1, gbytes(&mut g, 12)),
            _ => Pay::Aspa(n1, gprov(&mut g, n1, n2)),
        };
        // filters of all three kinds, related to the payload's values whatever its kind
        let pf: Vec<PF> = (0..g.below(4)).map(|_| PF { prefix: if g.pct(30) { None } else { Some(rel_prefix(&mut g, &tp, a2)) }, asn: opt_asn(&mut g, n1, n2), c: None }).collect();
        let bf: Vec<BF> = (0..g.below(4)).map(|_| BF { ski: if g.pct(30) { None } else { Some(rel_ski(&mut g, &tski)) }, asn: opt_asn(&mut g, n1, n2), c: None }).collect();
        let af: Option<Vec<AF>> = if g.pct(25) { None } else { Some((0..g.below(4)).map(|_| AF { cust: opt_asn(&mut g, n1, n2), c: None }).collect()) };
        let filters = real_filters(&pf, &bf, &af);
        let real = pay.real();

        // each filter on its own: at least one criterion present and every present criterion matches;
        // items of another kind are never matched
        for (m, f) in pf.iter().zip(filters.prefix.iter()) {
            if let rtr::Payload::Origin(o) = &real {
                assert!(f.drop_origin(*o) == m.matches(&pay), "PrefixFilter::drop_origin: a criterion is present and all present criteria (prefix covers the origin's, AS equal) match; want {} for filter {:?} origin {:?}", m.matches(&pay), m, pay);
            }
            assert!(f.drop_payload(&real) == m.matches(&pay), "PrefixFilter::drop_payload matches exactly the origins its criteria match; want {} for filter {:?} item {:?}", m.matches(&pay), m, pay);
        }
        for (m, f) in bf.iter().zip(filters.bgpsec.iter()) {
            if let rtr::Payload::RouterKey(k) = &real {
                assert!(f.drop_router_key(k) == m.matches(&pay), "BgpsecFilter::drop_router_key: a criterion is present and all present criteria (key identifier equal, AS equal) match; want {} for filter {:?} key {:?}", m.matches(&pay), m, pay);
            }
            assert!(f.drop_payload(&real) == m.matches(&pay), "BgpsecFilter::drop_payload matches exactly the router keys its criteria match; want {} for filter {:?} item {:?}", m.matches(&pay), m, pay);
        }
        for (m, f) in af.iter().flatten().zip(filters.aspa.iter().flatten()) {
            if let rtr::Payload::Aspa(x) = &real {
                assert!(f.drop_aspa(x) == m.matches(&pay), "AspaFilter::drop_aspa: the customer AS is present and equal; want {} for filter {:?} aspa {:?}", m.matches(&pay), m, pay);
            }
            assert!(f.drop_payload(&real) == m.matches(&pay), "AspaFilter::drop_payload matches exactly the ASPAs of its customer AS; want {} for filter {:?} item {:?}", m.matches(&pay), m, pay);
        }
        // the file: dropped exactly when some filter of the item's kind matches
        let want = pf.iter().any(|f| f.matches(&pay)) || bf.iter().any(|f| f.matches(&pay)) || af.iter().flatten().any(|f| f.matches(&pay));
        assert!(filters.drop_payload(&real) == want, "ValidationOutputFilters::drop_payload: dropped exactly when some filter of the item's kind matches; want {} for item {:?} prefix filters {:?} bgpsec filters {:?} aspa filters {:?}", want, pay, pf, bf, af);
        let file = SlurmFile::new(filters, LocallyAddedAssertions::default());
        assert!(file.drop_payload(&real) == want, "SlurmFile::drop_payload: dropped exactly when some filter of the item's kind matches; want {} for item {:?} prefix filters {:?} bgpsec filters {:?} aspa filters {:?}", want, pay, pf, bf, af);
    }}

    /// the whole file in the model
    #[derive(Clone, Debug)]
    struct M { pf: Vec<PF>, bf: Vec<BF>, af: Option<Vec<AF>>, pa: Vec<PA>, ba: Vec<BA>, aa: Option<Vec<AA>> }
    fn build(m: &M) -> SlurmFile {
        SlurmFile::new(real_filters(&m.pf, &m.bf, &m.af), LocallyAddedAssertions {
            prefix: m.pa.iter().map(|x| x.real()).collect(),
            bgpsec: m.ba.iter().map(|x| x.real()).collect(),
            aspa: m.aa.as_ref().map(|v| v.iter().map(|x| x.real()).collect()),
        })
    }
    fn prov_of(p: &ProviderAsns) -> Vec<u32> { p.iter().map(|a| a.into_u32()).collect() }
    /// the first field in which the file differs from the model (every field, read through public items)
    fn differs(f: &SlurmFile, m: &M) -> Option<String> {
        let (ff, fa) = (&f.filters, &f.assertions);
        if ff.prefix.len() != m.pf.len() || ff.bgpsec.len() != m.bf.len() || fa.prefix.len() != m.pa.len() || fa.bgpsec.len() != m.ba.len() { return Some("list lengths".into()) }
        if ff.aspa.as_ref().map(|v| v.len()) != m.af.as_ref().map(|v| v.len()) { return Some("aspaFilters presence / length".into()) }
        if fa.aspa.as_ref().map(|v| v.len()) != m.aa.as_ref().map(|v| v.len()) { return Some("aspaAssertions presence / length".into()) }
        for (i, (r, x)) in ff.prefix.iter().zip(m.pf.iter()).enumerate() {
            let pok = match (r.prefix, &x.prefix) { (None, None) => true, (Some(rp), Some(xp)) => pfx_is(rp, xp), _ => false };
            if !pok || r.asn.map(|a| a.into_u32()) != x.asn || r.comment != x.c { return Some(format!("prefix filter {}: {:?} vs {:?}", i, r, x)) }
        }
        for (i, (r, x)) in ff.bgpsec.iter().zip(m.bf.iter()).enumerate() {
            if r.ski.map(|s| s.as_slice().to_vec()) != x.ski.map(|s| s.to_vec()) || r.asn.map(|a| a.into_u32()) != x.asn || r.comment != x.c { return Some(format!("bgpsec filter {}: {:?} vs {:?}", i, r, x)) }
        }
        for (i, (r, x)) in ff.aspa.iter().flatten().zip(m.af.iter().flatten()).enumerate() {
            if r.customer_asid.map(|a| a.into_u32()) != x.cust || r.comment != x.c { return Some(format!("aspa filter {}: {:?} vs {:?}", i, r, x)) }
        }
        for (i, (r, x)) in fa.prefix.iter().zip(m.pa.iter()).enumerate() {
            if !pfx_is(r.prefix.prefix(), &x.p) || r.prefix.max_len() != x.ml || r.asn.into_u32() != x.asn || r.comment != x.c { return Some(format!("prefix assertion {}: {:?} vs {:?}", i, r, x)) }
        }
        for (i, (r, x)) in fa.bgpsec.iter().zip(m.ba.iter()).enumerate() {
            if r.asn.into_u32() != x.asn || r.ski.as_slice() != &x.ski[..] || &r.router_public_key[..] != &x.info[..] || r.comment != x.c { return Some(format!("bgpsec assertion {}: {:?} vs {:?}", i, r, x)) }
        }
        for (i, (r, x)) in fa.aspa.iter().flatten().zip(m.aa.iter().flatten()).enumerate() {
            if r.customer_asn.into_u32() != x.cust || prov_of(&r.provider_asns) != x.prov || r.comment != x.c { return Some(format!("aspa assertion {}: {:?} vs {:?}", i, r, x)) }
        }
        None
    }

    //@harness slurm_w_json W fn=SlurmFile::{new,to_string,to_string_pretty,to_writer,from_str,from_reader},PrefixAssertion::{serialize,deserialize,to_payload},AspaAssertion::{serialize,deserialize,to_payload},BgpsecAssertion::to_payload,Base64KeyInfo::{serialize,deserialize,from_str,fmt},serde_asn,serde_opt_asn,serde_key_identifier,serde_opt_key_identifier,Prefix::{from_str,fmt},LocallyAddedAssertions::iter_payload n=40000 timeout=600
    verif_search!{ slurm_w_json; |s0: u64, s1: u64, a: u128, a2: u128, n1: u32, n2: u32, ski: [u8; 20], t: [u8; 8]| {
        let mut g = G(s0 ^ s1.rotate_left(31) ^ (a as u64).rotate_left(7) ^ ((n1 as u64) << 32) ^ n2 as u64 ^ (t[0] as u64) << 17);
        // a random file: filters and assertions of all kinds, every optional field present / absent
        let base = { let v4 = g.pct(50); gprefix(&mut g, a, v4) };
        let m = M {
            pf: (0..g.below(3)).map(|_| PF { prefix: if g.pct(35) { None } else { Some(rel_prefix(&mut g, &base, a2)) }, asn: opt_asn(&mut g, n1, n2), c: gcomment(&mut g, &t) }).collect(),
            bf: (0..g.below(3)).map(|_| BF { ski: if g.pct(35) { None } else { Some(gski(&mut g, &ski)) }, asn: opt_asn(&mut g, n1, n2), c: gcomment(&mut g, &t) }).collect(),
            af: if g.pct(30) { None } else { Some((0..g.below(3)).map(|_| AF { cust: opt_asn(&mut g, n1, n2), c: gcomment(&mut g, &t) }).collect()) },
            pa: (0..g.below(4)).map(|_| { let p = rel_prefix(&mut g, &base, a2); PA { p, ml: gmaxlen(&mut g, &p), asn: rel_asn(&mut g, n1, n2), c: gcomment(&mut g, &t) } }).collect(),
            ba: (0..g.below(3)).map(|_| BA { asn: rel_asn(&mut g, n1, n2), ski: gski(&mut g, &ski), info: gbytes(&mut g, 40), c: gcomment(&mut g, &t) }).collect(),
            aa: if g.pct(30) { None } else { Some((0..g.below(3)).map(|_| AA { cust: rel_asn(&mut g, n1, n2), prov: gprov(&mut g, n1, n2), c: gcomment(&mut g, &t) }).collect()) },
        };
        let file = build(&m);
        if let Some(d) = differs(&file, &m) { panic!("a file built from its parts has exactly these parts: {}", d) }

        // each assertion yields the payload item with exactly its fields: prefix assertions, then router
        // keys, then ASPAs, each in file order
        let got: Vec<rtr::Payload> = file.assertions.iter_payload().collect();
        let n_aspa = m.aa.as_ref().map_or(0, |v| v.len());
        assert!(got.len() == m.pa.len() + m.ba.len() + n_aspa, "iter_payload yields one item per assertion: {} items for {:?}", got.len(), m);
        for (i, p) in got.iter().enumerate() {
            if i < m.pa.len() {
                let x = &m.pa[i];
                let ok = match p { rtr::Payload::Origin(o) => pfx_is(o.prefix.prefix(), &x.p) && o.prefix.max_len() == x.ml && o.asn.into_u32() == x.asn, _ => false };
                assert!(ok, "a prefix assertion yields the origin with exactly its prefix, max length and AS: item {} is {:?} for {:?}", i, p, x);
            } else if i < m.pa.len() + m.ba.len() {
                let x = &m.ba[i - m.pa.len()];
                let ok = match p { rtr::Payload::RouterKey(k) => k.key_identifier.as_slice() == &x.ski[..] && k.asn.into_u32() == x.asn && k.key_info.as_slice() == &x.info[..], _ => false };
                assert!(ok, "a BGPsec assertion yields the router key with exactly its key identifier, AS and key info: item {} is {:?} for {:?}", i, p, x);
            } else {
                let x = &m.aa.as_ref().unwrap()[i - m.pa.len() - m.ba.len()];
                let ok = match p { rtr::Payload::Aspa(s) => s.customer.into_u32() == x.cust && prov_of(&s.providers) == x.prov, _ => false };
                assert!(ok, "an ASPA assertion yields the ASPA with exactly its customer and providers: item {} is {:?} for {:?}", i, p, x);
            }
        }

        // serialising to JSON and parsing back gives an equal file (every writer, every reader)
        let mut buf = Vec::new();
        assert!(file.to_writer(&mut buf).is_ok(), "to_writer serialises the file");
        let mut pretty = Vec::new();
        assert!(file.to_writer_pretty(&mut pretty).is_ok(), "to_writer_pretty serialises the file");
        let texts = [
            ("serde_json::to_string", match serde_json::to_string(&file) { Ok(s) => s, Err(e) => panic!("the file serialises to JSON: {} for {:?}", e, m) }),
            ("to_string", file.to_string()),
            ("to_string_pretty", file.to_string_pretty()),
            ("to_writer", String::from_utf8(buf).expect("JSON is UTF-8")),
            ("to_writer_pretty", String::from_utf8(pretty).expect("JSON is UTF-8")),
        ];
        for (k, (how, text)) in texts.iter().enumerate() {
            let back = match k % 3 { 0 => serde_json::from_str::<SlurmFile>(text), 1 => SlurmFile::from_str(text), _ => SlurmFile::from_reader(text.as_bytes()) };
            match back {
                Ok(b) => {
                    if let Some(d) = differs(&b, &m) { panic!("serialising a file ({}) and parsing it back gives an equal file, field by field: {} in {}", how, d, text) }
                    assert!(b == file, "serialising a file ({}) and parsing it back gives an equal file: got {:?} from {}", how, b, text);
                }
                Err(e) => panic!("a serialised file ({}) parses back: {} for {}", how, e, text),
            }
        }
    }}
}
//@end
