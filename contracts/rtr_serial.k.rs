// Unit rtr_serial (C16), Kani side: contracts on the real compiled code of
// src/rtr/state.rs.  All harnesses are loop-free over full-domain u32 inputs:
// complete proofs, with concrete counterexamples on failure.
//@features ca,rtr,slurm

//@attrs src/rtr/state.rs :: impl Serial :: add
#[cfg_attr(kani, kani::requires(other <= 0x7FFF_FFFF))]
#[cfg_attr(kani, kani::ensures(|r: &Serial| verif_rtr_serial::post_add(&self, other, r)))]
//@end

//@append src/rtr/state.rs
#[cfg(any(kani, verif_replay))]
#[allow(dead_code, unused)]
mod verif_rtr_serial {
    use super::*;
    use crate::verif_support::{assume, reach};

    /// RFC 1982 for SERIAL_BITS = 32, on the difference (b - a) mod 2^32.
    pub fn rfc1982(a: u32, b: u32) -> Option<cmp::Ordering> {
        let d = b.wrapping_sub(a);
        if d == 0 { Some(cmp::Ordering::Equal) }
        else if d < 0x8000_0000 { Some(cmp::Ordering::Less) }
        else if d > 0x8000_0000 { Some(cmp::Ordering::Greater) }
        else { None }
    }

    pub fn post_add(s: &Serial, other: u32, r: &Serial) -> bool {
        r.0 as u64 == (s.0 as u64 + other as u64) % 0x1_0000_0000
        && (other == 0 || s.partial_cmp(r) == Some(cmp::Ordering::Less))
        && (other != 0 || r.0 == s.0)
    }

    //@harness serial_add_contract K fn=Serial::add
    verif_harness!{ serial_add_contract for Serial::add; |a: u32, n: u32| {
        assume(n <= 0x7FFF_FFFF);
        let s = Serial(a);
        let r = s.add(n);
        assert!(post_add(&s, n, &r), "Serial::add postcondition");
    }}

    //@harness serial_partial_cmp_rfc1982 K fn=PartialOrd::partial_cmp
    verif_harness!{ serial_partial_cmp_rfc1982; |a: u32, b: u32| {
        let r = Serial(a).partial_cmp(&Serial(b));
        assert!(r == rfc1982(a, b), "partial_cmp == rfc1982");
        // antisymmetry and agreement with ==
        let back = Serial(b).partial_cmp(&Serial(a));
        assert!(back == r.map(|o| o.reverse()), "antisymmetric");
        assert!((Serial(a) == Serial(b)) == (r == Some(cmp::Ordering::Equal)), "eq <=> Equal");
        assert!(r.is_none() == (b.wrapping_sub(a) == 0x8000_0000), "undefined exactly at 2^31");
    }}

    //@harness serial_wire_be K fn=Serial::from_be,Serial::to_be
    verif_harness!{ serial_wire_be; |x: u32| {
        let s = Serial(x);
        assert!(Serial::from_be(s.to_be()).0 == x, "from_be(to_be(x)) == x");
        assert!(s.to_be().to_ne_bytes() == x.to_be_bytes(), "wire form is big-endian");
        assert!(Serial::from_be(u32::from_ne_bytes(x.to_be_bytes())).0 == x, "from_be reads big-endian");
        assert!(u32::from(Serial::from(x)) == x, "From<u32> round trip");
    }}
}
//@end
