// Unit pdu_layout (C07, write side + byte view): the fixed-layout `#[repr(C, packed)]` PDU structs
// of src/rtr/pdu.rs on the compiled crate.  For every fixed PDU type and the fixed parts of the two
// variable-length PDUs, with fully symbolic constructor arguments:
//   (a) `new(..).as_ref()` is the big-endian wire layout of RFC 6810 / RFC 8210 / draft-8210bis (ASPA),
//       written here as an independent array expression built from shifts;
//   (b) header.length() == as_ref().len() == size_of::<T>() == T::size();
//   (c) every accessor returns the constructor argument;
//   (d) copying as_ref() into a default value's as_mut() (what write_all / read_exact do) gives an
//       equal value; and, for ARBITRARY octets b, as_mut() <- b makes as_ref() == b and the accessors
//       decode b big-endian (`*_from_wire` harnesses: these are exactly the facts unit pdu_read assumes
//       for the unsafe raw-pointer casts as_ref/as_mut).
// All of these harnesses are loop-free over full-domain inputs (memcmp/memcpy over a CONSTANT length: a
// slice comparison whose length is symbolic makes CBMC unwind memcmp without bound, so harnesses branch
// first and compare per fixed size).
// Further: Payload::new / new_if_supported (version gating: origins from version 0, router keys from 1,
// ASPA from 2), Payload::to_payload for EVERY prefix PDU (accepted iff prefix_len <= max_len <= family
// maximum; item fields; the error PDU built otherwise), to_payload . new == id for origins (chain N/T/A/G,
// see below), router keys and ASPA announcements with a static (allocation-free) Bytes, flags <-> Action,
// RouterKey::new / Aspa::new length fields, Error::new layout (Kb: bounded sizes).
// FINDING (harness pdu_payload_aspa_withdraw_roundtrip fails, replayed natively): an ASPA item written with
// action Withdraw and a non-empty provider list comes back from to_payload with an empty provider list.
//@features ca,rtr,slurm
//@include addr_prefix

//@append src/rtr/pdu.rs
#[cfg(any(kani, verif_replay))]
#[allow(dead_code, unused)]
mod verif_pdu_layout {
    use super::*;
    use crate::verif_support::{assume, reach};
    use crate::resources::addr::verif_addr_prefix::{mkml, fam_max, hostmask};
    use crate::rtr::payload::{PayloadRef, RouteOrigin, Timing};

    // ---------------- independent specification of the wire format ----------------
    fn b16(x: u16) -> [u8; 2] { [(x >> 8) as u8, (x & 0xff) as u8] }
    fn b32(x: u32) -> [u8; 4] { [(x >> 24) as u8, ((x >> 16) & 0xff) as u8, ((x >> 8) & 0xff) as u8, (x & 0xff) as u8] }
    fn v16(a: u8, b: u8) -> u16 { (a as u16) * 256 + b as u16 }
    fn v32(a: u8, b: u8, c: u8, d: u8) -> u32 { (a as u32) * 0x100_0000 + (b as u32) * 0x1_0000 + (c as u32) * 0x100 + d as u32 }
    fn v128(b: &[u8]) -> u128 {
        ((v32(b[0], b[1], b[2], b[3]) as u128) << 96) | ((v32(b[4], b[5], b[6], b[7]) as u128) << 64)
        | ((v32(b[8], b[9], b[10], b[11]) as u128) << 32) | (v32(b[12], b[13], b[14], b[15]) as u128)
    }
    /// RFC 6810 5.1 / RFC 8210 5.1: version, PDU type, 16 bit session/flags/zero field, 32 bit length
    fn hdr(version: u8, pdu: u8, session: u16, length: u32) -> [u8; 8] {
        let s = b16(session); let l = b32(length);
        [version, pdu, s[0], s[1], l[0], l[1], l[2], l[3]]
    }
    /// what write_all(as_ref()) followed by read_exact(as_mut()) does to a value
    fn wire_copy<T: Default + AsRef<[u8]> + AsMut<[u8]>>(x: &T) -> T {
        let mut t = T::default();
        t.as_mut().copy_from_slice(x.as_ref());
        t
    }
    fn from_wire<T: Default + AsMut<[u8]>>(b: &[u8]) -> T {
        let mut t = T::default();
        t.as_mut().copy_from_slice(b);
        t
    }
    fn st(session: u16, serial: u32) -> State { State::from_parts(session, Serial(serial)) }

    // ---------------- Header ----------------
    //@harness pdu_header_layout K fn=Header::new,Header::as_ref,Header::as_mut,Header::{version,pdu,session,length,pdu_len}
    verif_harness!{ pdu_header_layout; |version: u8, pdu: u8, session: u16, length: u32| {
        let h = Header::new(version, pdu, session, length);
        let e = hdr(version, pdu, session, length);
        assert!(h.as_ref() == &e[..], "Header: big-endian wire layout");
        assert!(h.as_ref().len() == 8 && mem::size_of::<Header>() == 8 && Header::LEN == 8, "Header is 8 octets");
        assert!(h.version() == version && h.pdu() == pdu && h.session() == session && h.length() == length, "Header accessors");
        assert!(matches!(h.pdu_len(), Ok(n) if n == length as usize), "pdu_len is the length field");
        assert!(wire_copy(&h) == h, "Header wire round trip");
    }}
    //@harness pdu_header_from_wire K fn=Header::as_mut,Header::as_ref,Header::{version,pdu,session,length}
    verif_harness!{ pdu_header_from_wire; |b: [u8; 8]| {
        let mut h = Header::default();
        assert!(h.as_mut().len() == 8, "as_mut covers the 8 octets");
        h.as_mut().copy_from_slice(&b);
        assert!(h.as_ref() == &b[..], "octets written through as_mut are the octets seen through as_ref");
        assert!(h.version() == b[0] && h.pdu() == b[1], "version / type octets");
        assert!(h.session() == v16(b[2], b[3]), "session is big-endian");
        assert!(h.length() == v32(b[4], b[5], b[6], b[7]), "length is big-endian");
        assert!(h == Header::new(b[0], b[1], v16(b[2], b[3]), v32(b[4], b[5], b[6], b[7])), "equal to the header built from the decoded fields");
    }}

    // ---------------- SerialNotify (type 0) ----------------
    //@harness pdu_serial_notify_layout K fn=SerialNotify::new,SerialNotify::as_ref,SerialNotify::as_mut,SerialNotify::size
    verif_harness!{ pdu_serial_notify_layout; |version: u8, session: u16, serial: u32| {
        let x = SerialNotify::new(version, st(session, serial));
        let h = hdr(version, 0, session, 12); let s = b32(serial);
        let e: [u8; 12] = [h[0], h[1], h[2], h[3], h[4], h[5], h[6], h[7], s[0], s[1], s[2], s[3]];
        assert!(x.as_ref() == &e[..], "SerialNotify wire layout");
        assert!(x.header.length() as usize == x.as_ref().len() && x.as_ref().len() == mem::size_of::<SerialNotify>()
                && SerialNotify::size() == 12 && x.header.length() == 12, "length field == octets written == size");
        assert!(x.version() == version && x.session() == session && x.header.pdu() == SerialNotify::PDU, "accessors");
        assert!(Serial::from_be(x.serial) == Serial(serial) && u32::from_be(x.serial) == serial, "serial field (no public accessor)");
        assert!(wire_copy(&x) == x, "wire round trip");
    }}
    //@harness pdu_serial_notify_from_wire K fn=SerialNotify::as_mut,SerialNotify::as_ref
    verif_harness!{ pdu_serial_notify_from_wire; |b: [u8; 12]| {
        let mut x = SerialNotify::default();
        assert!(x.as_mut().len() == 12, "as_mut length");
        x.as_mut().copy_from_slice(&b);
        assert!(x.as_ref() == &b[..], "as_ref after as_mut");
        assert!(x.header.as_ref() == &b[..8], "the header field is the first 8 octets");
        assert!(x.version() == b[0] && x.session() == v16(b[2], b[3]) && u32::from_be(x.serial) == v32(b[8], b[9], b[10], b[11]), "fields big-endian");
        // writing only the tail leaves the header octets alone; assigning the header leaves the tail alone
        let mut y = SerialNotify::default();
        y.as_mut()[Header::LEN..].copy_from_slice(&b[8..]);
        assert!(y.header == Header::default(), "tail write keeps header");
        y.header = from_wire::<Header>(&b[..8]);
        assert!(y == x && y.as_ref() == &b[..], "header assignment + tail write == whole write");
    }}

    // ---------------- SerialQuery (type 1) and its payload ----------------
    //@harness pdu_serial_query_layout K fn=SerialQuery::new,SerialQueryPayload::new,SerialQueryPayload::serial,SerialQuery::as_ref
    verif_harness!{ pdu_serial_query_layout; |version: u8, session: u16, serial: u32| {
        let x = SerialQuery::new(version, st(session, serial));
        let h = hdr(version, 1, session, 12); let s = b32(serial);
        let e: [u8; 12] = [h[0], h[1], h[2], h[3], h[4], h[5], h[6], h[7], s[0], s[1], s[2], s[3]];
        assert!(x.as_ref() == &e[..], "SerialQuery wire layout");
        assert!(x.header.length() as usize == x.as_ref().len() && x.as_ref().len() == mem::size_of::<SerialQuery>()
                && SerialQuery::size() == 12 && x.header.length() == 12, "length field == octets written == size");
        assert!(x.version() == version && x.session() == session && x.header.pdu() == SerialQuery::PDU, "accessors");
        let p = x.payload;
        assert!(p.serial() == Serial(serial) && p.serial().0 == serial, "payload serial accessor");
        assert!(wire_copy(&x) == x, "wire round trip");
        // the payload on its own (the server reads header and payload separately)
        let q = SerialQueryPayload::new(Serial(serial));
        assert!(q.as_ref() == &s[..] && q.as_ref().len() == 4 && q.serial().0 == serial && wire_copy(&q) == q, "SerialQueryPayload");
    }}
    //@harness pdu_serial_query_from_wire K fn=SerialQuery::as_mut,SerialQueryPayload::as_mut
    verif_harness!{ pdu_serial_query_from_wire; |b: [u8; 12]| {
        let x: SerialQuery = from_wire(&b);
        assert!(x.as_ref() == &b[..] && x.header.as_ref() == &b[..8], "as_ref after as_mut");
        let p = x.payload;
        assert!(p.serial().0 == v32(b[8], b[9], b[10], b[11]) && x.session() == v16(b[2], b[3]), "fields big-endian");
        let q: SerialQueryPayload = from_wire(&b[8..]);
        assert!(q == p && q.as_ref() == &b[8..], "payload alone");
    }}

    // ---------------- ResetQuery (2), CacheResponse (3), CacheReset (8): header only ----------------
    //@harness pdu_reset_query_layout K fn=ResetQuery::new,ResetQuery::as_ref,ResetQuery::as_mut
    verif_harness!{ pdu_reset_query_layout; |version: u8| {
        let x = ResetQuery::new(version);
        let e: [u8; 8] = [version, 2, 0, 0, 0, 0, 0, 8];
        assert!(x.as_ref() == &e[..], "ResetQuery wire layout");
        assert!(x.header.length() as usize == x.as_ref().len() && x.as_ref().len() == mem::size_of::<ResetQuery>() && ResetQuery::size() == 8, "length == size");
        assert!(x.version() == version && x.session() == 0 && x.header.pdu() == ResetQuery::PDU && ResetQuery::PDU == 2, "accessors");
        assert!(wire_copy(&x) == x, "wire round trip");
    }}
    //@harness pdu_cache_response_layout K fn=CacheResponse::new,CacheResponse::as_ref,CacheResponse::as_mut
    verif_harness!{ pdu_cache_response_layout; |version: u8, session: u16, serial: u32| {
        let x = CacheResponse::new(version, st(session, serial));
        let e = hdr(version, 3, session, 8);
        assert!(x.as_ref() == &e[..], "CacheResponse wire layout");
        assert!(x.header.length() as usize == x.as_ref().len() && x.as_ref().len() == mem::size_of::<CacheResponse>() && CacheResponse::size() == 8, "length == size");
        assert!(x.version() == version && x.session() == session && x.header.pdu() == CacheResponse::PDU && CacheResponse::PDU == 3, "accessors");
        assert!(wire_copy(&x) == x, "wire round trip");
    }}
    //@harness pdu_cache_reset_layout K fn=CacheReset::new,CacheReset::as_ref,CacheReset::as_mut
    verif_harness!{ pdu_cache_reset_layout; |version: u8| {
        let x = CacheReset::new(version);
        let e: [u8; 8] = [version, 8, 0, 0, 0, 0, 0, 8];
        assert!(x.as_ref() == &e[..], "CacheReset wire layout");
        assert!(x.header.length() as usize == x.as_ref().len() && x.as_ref().len() == mem::size_of::<CacheReset>() && CacheReset::size() == 8, "length == size");
        assert!(x.version() == version && x.session() == 0 && x.header.pdu() == CacheReset::PDU, "accessors");
        assert!(wire_copy(&x) == x, "wire round trip");
    }}
    //@harness pdu_header_only_from_wire K fn=ResetQuery::as_mut,CacheResponse::as_mut,CacheReset::as_mut
    verif_harness!{ pdu_header_only_from_wire; |b: [u8; 8]| {
        let h: Header = from_wire(&b);
        let a: ResetQuery = from_wire(&b); let c: CacheResponse = from_wire(&b); let r: CacheReset = from_wire(&b);
        assert!(a.as_ref() == &b[..] && c.as_ref() == &b[..] && r.as_ref() == &b[..], "as_ref after as_mut");
        assert!(a.header == h && c.header == h && r.header == h, "header field is the 8 octets");
    }}

    // ---------------- Ipv4Prefix (type 4) ----------------
    //@harness pdu_ipv4_prefix_layout K fn=Ipv4Prefix::new,Ipv4Prefix::as_ref,Ipv4Prefix::{flags,prefix_len,max_len,prefix,asn}
    verif_harness!{ pdu_ipv4_prefix_layout; |version: u8, flags: u8, prefix_len: u8, max_len: u8, addr: u32, asn: u32| {
        let x = Ipv4Prefix::new(version, flags, prefix_len, max_len, Ipv4Addr::from(addr), Asn::from_u32(asn));
        let a = b32(addr); let s = b32(asn);
        let e: [u8; 20] = [version, 4, 0, 0, 0, 0, 0, 20, flags, prefix_len, max_len, 0, a[0], a[1], a[2], a[3], s[0], s[1], s[2], s[3]];
        assert!(x.as_ref() == &e[..], "Ipv4Prefix wire layout (RFC 6810 5.6)");
        assert!(x.header.length() as usize == x.as_ref().len() && x.as_ref().len() == mem::size_of::<Ipv4Prefix>() && Ipv4Prefix::size() == 20, "length == size");
        assert!(x.version() == version && x.session() == 0 && x.header.pdu() == Ipv4Prefix::PDU, "header accessors");
        assert!(x.flags() == flags && x.prefix_len() == prefix_len && x.max_len() == max_len, "flags / lengths");
        assert!(u32::from(x.prefix()) == addr && x.asn().into_u32() == asn, "prefix / asn");
        assert!(wire_copy(&x) == x, "wire round trip");
    }}
    //@harness pdu_ipv4_prefix_from_wire K fn=Ipv4Prefix::as_mut,Ipv4Prefix::as_ref
    verif_harness!{ pdu_ipv4_prefix_from_wire; |b: [u8; 20]| {
        let mut x = Ipv4Prefix::default();
        assert!(x.as_mut().len() == 20, "as_mut length");
        x.as_mut().copy_from_slice(&b);
        assert!(x.as_ref() == &b[..] && x.header.as_ref() == &b[..8], "as_ref after as_mut");
        assert!(x.flags() == b[8] && x.prefix_len() == b[9] && x.max_len() == b[10], "octet fields");
        assert!(u32::from(x.prefix()) == v32(b[12], b[13], b[14], b[15]) && x.asn().into_u32() == v32(b[16], b[17], b[18], b[19]), "big-endian fields");
        let mut y = Ipv4Prefix::default();
        y.as_mut()[Header::LEN..].copy_from_slice(&b[8..]);
        assert!(y.header == Header::default(), "tail write keeps header");
        y.header = from_wire::<Header>(&b[..8]);
        assert!(y == x && y.as_ref() == &b[..], "header assignment + tail write == whole write");
    }}

    // ---------------- Ipv6Prefix (type 6) ----------------
    //@harness pdu_ipv6_prefix_layout K fn=Ipv6Prefix::new,Ipv6Prefix::as_ref,Ipv6Prefix::{flags,prefix_len,max_len,prefix,asn}
    verif_harness!{ pdu_ipv6_prefix_layout; |version: u8, flags: u8, prefix_len: u8, max_len: u8, addr: u128, asn: u32| {
        let x = Ipv6Prefix::new(version, flags, prefix_len, max_len, Ipv6Addr::from(addr), Asn::from_u32(asn));
        let a0 = b32((addr >> 96) as u32); let a1 = b32((addr >> 64) as u32); let a2 = b32((addr >> 32) as u32); let a3 = b32(addr as u32);
        let s = b32(asn);
        let e: [u8; 32] = [version, 6, 0, 0, 0, 0, 0, 32, flags, prefix_len, max_len, 0,
            a0[0], a0[1], a0[2], a0[3], a1[0], a1[1], a1[2], a1[3], a2[0], a2[1], a2[2], a2[3], a3[0], a3[1], a3[2], a3[3],
            s[0], s[1], s[2], s[3]];
        assert!(x.as_ref() == &e[..], "Ipv6Prefix wire layout (RFC 6810 5.7)");
        assert!(x.header.length() as usize == x.as_ref().len() && x.as_ref().len() == mem::size_of::<Ipv6Prefix>() && Ipv6Prefix::size() == 32, "length == size");
        assert!(x.version() == version && x.session() == 0 && x.header.pdu() == Ipv6Prefix::PDU, "header accessors");
        assert!(x.flags() == flags && x.prefix_len() == prefix_len && x.max_len() == max_len, "flags / lengths");
        assert!(u128::from(x.prefix()) == addr && x.asn().into_u32() == asn, "prefix / asn");
        assert!(wire_copy(&x) == x, "wire round trip");
    }}
    //@harness pdu_ipv6_prefix_from_wire K fn=Ipv6Prefix::as_mut,Ipv6Prefix::as_ref
    verif_harness!{ pdu_ipv6_prefix_from_wire; |b: [u8; 32]| {
        let x: Ipv6Prefix = from_wire(&b);
        assert!(x.as_ref() == &b[..] && x.as_ref().len() == 32 && x.header.as_ref() == &b[..8], "as_ref after as_mut");
        assert!(x.flags() == b[8] && x.prefix_len() == b[9] && x.max_len() == b[10], "octet fields");
        assert!(u128::from(x.prefix()) == v128(&b[12..28]) && x.asn().into_u32() == v32(b[28], b[29], b[30], b[31]), "big-endian fields");
        let mut y = Ipv6Prefix::default();
        y.as_mut()[Header::LEN..].copy_from_slice(&b[8..]);
        y.header = from_wire::<Header>(&b[..8]);
        assert!(y == x && y.as_ref() == &b[..], "header assignment + tail write == whole write");
    }}

    // ---------------- EndOfData (type 7), both formats ----------------
    //@harness pdu_end_of_data_v0_layout K fn=EndOfDataV0::new,EndOfDataV0::serial,EndOfDataV0::as_ref
    verif_harness!{ pdu_end_of_data_v0_layout; |session: u16, serial: u32| {
        let x = EndOfDataV0::new(st(session, serial));
        let h = hdr(0, 7, session, 12); let s = b32(serial);
        let e: [u8; 12] = [h[0], h[1], h[2], h[3], h[4], h[5], h[6], h[7], s[0], s[1], s[2], s[3]];
        assert!(x.as_ref() == &e[..], "EndOfDataV0 wire layout (RFC 6810 5.8)");
        assert!(x.header.length() as usize == x.as_ref().len() && x.as_ref().len() == mem::size_of::<EndOfDataV0>() && EndOfDataV0::size() == 12, "length == size");
        assert!(x.version() == 0 && x.session() == session && x.serial().0 == serial && x.header.pdu() == EndOfDataV0::PDU, "accessors");
        assert!(wire_copy(&x) == x, "wire round trip");
    }}
    //@harness pdu_end_of_data_v1_layout K fn=EndOfDataV1::new,EndOfDataV1::{serial,timing},EndOfDataV1::as_ref
    verif_harness!{ pdu_end_of_data_v1_layout; |version: u8, session: u16, serial: u32, refresh: u32, retry: u32, expire: u32| {
        let x = EndOfDataV1::new(version, st(session, serial), Timing { refresh, retry, expire });
        let h = hdr(version, 7, session, 24); let s = b32(serial); let f = b32(refresh); let t = b32(retry); let x4 = b32(expire);
        let e: [u8; 24] = [h[0], h[1], h[2], h[3], h[4], h[5], h[6], h[7], s[0], s[1], s[2], s[3],
            f[0], f[1], f[2], f[3], t[0], t[1], t[2], t[3], x4[0], x4[1], x4[2], x4[3]];
        assert!(x.as_ref() == &e[..], "EndOfDataV1 wire layout (RFC 8210 5.8)");
        assert!(x.header.length() as usize == x.as_ref().len() && x.as_ref().len() == mem::size_of::<EndOfDataV1>() && EndOfDataV1::size() == 24, "length == size");
        assert!(x.version() == version && x.session() == session && x.serial().0 == serial && x.header.pdu() == EndOfDataV1::PDU, "accessors");
        let tm = x.timing();
        assert!(tm.refresh == refresh && tm.retry == retry && tm.expire == expire, "timing accessor");
        assert!(wire_copy(&x) == x, "wire round trip");
    }}
    //@harness pdu_end_of_data_enum K fn=EndOfData::new,EndOfData::{version,session,serial,state,timing},EndOfData::as_ref
    verif_harness!{ pdu_end_of_data_enum; |version: u8, session: u16, serial: u32, refresh: u32, retry: u32, expire: u32| {
        let x = EndOfData::new(version, st(session, serial), Timing { refresh, retry, expire });
        assert!(x.version() == version && x.session() == session && x.serial().0 == serial, "version / session / serial");
        assert!(x.state().session() == session && x.state().serial().0 == serial, "state");
        match x {
            EndOfData::V0(v0) => {
                assert!(version == 0 && x.timing().is_none(), "version 0 uses the short format without timing");
                assert!(v0 == EndOfDataV0::new(st(session, serial)) && v0.header.length() == 12, "V0 value");
            }
            EndOfData::V1(v1) => {
                assert!(version != 0, "versions from 1 use the long format");
                assert!(matches!(x.timing(), Some(t) if t.refresh == refresh && t.retry == retry && t.expire == expire), "timing");
                assert!(v1 == EndOfDataV1::new(version, st(session, serial), Timing { refresh, retry, expire }) && v1.header.length() == 24, "V1 value");
            }
        }
        assert!(x.as_ref().len() == (if version == 0 { 12 } else { 24 }), "octets written == length field");
    }}
    //@harness pdu_end_of_data_enum_octets K fn=EndOfData::as_ref,EndOfData::as_mut
    verif_harness!{ pdu_end_of_data_enum_octets; |b: [u8; 24]| {
        // as_ref/as_mut of the enum delegate to the variant
        let mut x = EndOfData::V0(EndOfDataV0::default());
        assert!(x.as_mut().len() == 12, "V0 as_mut length");
        x.as_mut().copy_from_slice(&b[..12]);
        let v0: EndOfDataV0 = from_wire(&b[..12]);
        assert!(x == EndOfData::V0(v0) && &x.as_ref()[..12] == &b[..12], "V0 delegates");
        let mut y = EndOfData::V1(EndOfDataV1::default());
        assert!(y.as_mut().len() == 24, "V1 as_mut length");
        y.as_mut().copy_from_slice(&b);
        let v1: EndOfDataV1 = from_wire(&b);
        assert!(y == EndOfData::V1(v1) && &y.as_ref()[..24] == &b[..], "V1 delegates");
    }}
    //@harness pdu_end_of_data_from_wire K fn=EndOfDataV0::as_mut,EndOfDataV1::as_mut
    verif_harness!{ pdu_end_of_data_from_wire; |b: [u8; 24]| {
        let x: EndOfDataV1 = from_wire(&b);
        assert!(x.as_ref() == &b[..] && x.header.as_ref() == &b[..8], "V1 as_ref after as_mut");
        let tm = x.timing();
        assert!(x.serial().0 == v32(b[8], b[9], b[10], b[11]) && tm.refresh == v32(b[12], b[13], b[14], b[15])
                && tm.retry == v32(b[16], b[17], b[18], b[19]) && tm.expire == v32(b[20], b[21], b[22], b[23]), "V1 fields big-endian");
        let mut y = EndOfDataV1::default();
        y.as_mut()[Header::LEN..].copy_from_slice(&b[8..]);
        y.header = from_wire::<Header>(&b[..8]);
        assert!(y == x, "V1 header assignment + tail write == whole write");
        let z: EndOfDataV0 = from_wire(&b[..12]);
        assert!(z.as_ref() == &b[..12] && z.header.as_ref() == &b[..8] && z.serial().0 == v32(b[8], b[9], b[10], b[11]), "V0");
        let mut w = EndOfDataV0::default();
        w.as_mut()[Header::LEN..].copy_from_slice(&b[8..12]);
        w.header = from_wire::<Header>(&b[..8]);
        assert!(w == z, "V0 header assignment + tail write == whole write");
    }}

    // ---------------- fixed parts of RouterKey (type 9) and Aspa (type 11) ----------------
    /// the struct literal of RouterKey::new with the length as a parameter (no Bytes involved)
    fn rk_fixed(version: u8, flags: u8, ki: [u8; 20], asn: u32, len: u32) -> RouterKeyFixed {
        RouterKeyFixed { header: Header::new(version, RouterKey::PDU, (flags as u16) << 8, len), key_identifier: ki, asn: asn.to_be() }
    }
    //@harness pdu_router_key_fixed_from_wire K fn=RouterKeyFixed::as_mut,RouterKeyFixed::as_ref
    verif_harness!{ pdu_router_key_fixed_from_wire; |b: [u8; 32]| {
        let mut x = RouterKeyFixed::default();
        assert!(x.as_mut().len() == 32 && mem::size_of::<RouterKeyFixed>() == 32, "as_mut length");
        x.as_mut().copy_from_slice(&b);
        assert!(x.as_ref() == &b[..] && x.header.as_ref() == &b[..8], "as_ref after as_mut");
        assert!(&x.key_identifier[..] == &b[8..28] && u32::from_be(x.asn) == v32(b[28], b[29], b[30], b[31]), "fields");
        let mut y = RouterKeyFixed { header: from_wire::<Header>(&b[..8]), .. Default::default() };
        y.as_mut()[Header::LEN..].copy_from_slice(&b[8..]);
        assert!(y == x && y.as_ref() == &b[..], "header from struct literal + tail write == whole write (read_payload's shape)");
        assert!(wire_copy(&x) == x, "wire round trip");
    }}
    //@harness pdu_aspa_fixed_from_wire K fn=AspaFixed::as_mut,AspaFixed::as_ref
    verif_harness!{ pdu_aspa_fixed_from_wire; |b: [u8; 12]| {
        let mut x = AspaFixed::default();
        assert!(x.as_mut().len() == 12 && mem::size_of::<AspaFixed>() == 12, "as_mut length");
        x.as_mut().copy_from_slice(&b);
        assert!(x.as_ref() == &b[..] && x.header.as_ref() == &b[..8], "as_ref after as_mut");
        assert!(u32::from_be(x.customer) == v32(b[8], b[9], b[10], b[11]), "customer big-endian");
        let mut y = AspaFixed { header: from_wire::<Header>(&b[..8]), .. Default::default() };
        y.as_mut()[Header::LEN..].copy_from_slice(&b[8..]);
        assert!(y == x && y.as_ref() == &b[..], "header from struct literal + tail write == whole write (read_payload's shape)");
        assert!(wire_copy(&x) == x, "wire round trip");
    }}

    // ---------------- RouterKey::new / Aspa::new with a static (allocation-free) Bytes ----------------
    // key info / provider list of a fixed small size: the length arithmetic itself is proved for every
    // size in unit pdu_read (Verus)
    static KEY4: [u8; 4] = [21, 22, 23, 24];
    fn check_router_key(version: u8, flags: u8, ki: [u8; 20], asn: u32, info: &'static [u8]) {
        let n = info.len() as u32;
        let x = RouterKey::new(version, flags, ki, Asn::from_u32(asn), RouterKeyInfo(Bytes::from_static(info)));
        let h = hdr(version, 9, (flags as u16) * 256, 32 + n); let s = b32(asn);
        let e: [u8; 32] = [h[0], h[1], h[2], h[3], h[4], h[5], h[6], h[7],
            ki[0], ki[1], ki[2], ki[3], ki[4], ki[5], ki[6], ki[7], ki[8], ki[9], ki[10], ki[11], ki[12], ki[13], ki[14], ki[15], ki[16], ki[17], ki[18], ki[19],
            s[0], s[1], s[2], s[3]];
        assert!(x.fixed.as_ref() == &e[..], "RouterKey fixed part wire layout (RFC 8210 5.10): flags in the first octet of the session field, zero in the second");
        assert!(x.fixed.as_ref()[2] == flags && x.fixed.as_ref()[3] == 0, "flags octet, zero octet");
        assert!(x.fixed == rk_fixed(version, flags, ki, asn, 32 + n), "fixed part");
        assert!(x.fixed.header.length() as usize == x.fixed.as_ref().len() + x.key_info.as_slice().len(), "length field == octets written by write()");
        assert!(x.size() == x.fixed.header.length() && x.size() == 32 + n, "size()");
        assert!(x.version() == version && x.flags() == flags && x.key_identifier() == ki && x.asn().into_u32() == asn, "accessors");
        assert!(x.key_info().as_slice().as_ptr() == info.as_ptr() && x.key_info().as_slice().len() == info.len(), "key info kept");
        mem::forget(x);
    }
    //@harness pdu_router_key_new K fn=RouterKey::new,RouterKey::{version,flags,key_identifier,asn,size,key_info}
    verif_harness!{ pdu_router_key_new; |version: u8, flags: u8, ki: [u8; 20], asn: u32, four: bool| {
        if four { check_router_key(version, flags, ki, asn, &KEY4[..]) } else { check_router_key(version, flags, ki, asn, &KEY4[..0]) }
    }}
    static PROV8: [u8; 8] = [0, 1, 0, 13, 0, 1, 0, 14];
    fn check_aspa(version: u8, flags: u8, customer: u32, prov: &'static [u8]) {
        let n = prov.len() as u32;
        let x = Aspa::new(version, flags, Asn::from_u32(customer), ProviderAsns(Bytes::from_static(prov)));
        let h = hdr(version, 11, (flags as u16) * 256, 12 + n); let c = b32(customer);
        let e: [u8; 12] = [h[0], h[1], h[2], h[3], h[4], h[5], h[6], h[7], c[0], c[1], c[2], c[3]];
        assert!(x.fixed.as_ref() == &e[..], "Aspa fixed part wire layout (draft-ietf-sidrops-8210bis 5.12)");
        assert!(x.fixed.as_ref()[2] == flags && x.fixed.as_ref()[3] == 0, "flags octet, zero octet");
        assert!(x.fixed.header.length() as usize == x.fixed.as_ref().len() + x.providers.as_ref().len(), "length field == octets written by write(), for both actions");
        assert!(x.size() == x.fixed.header.length() && x.size() == 12 + n, "size()");
        assert!(x.version() == version && x.flags() == flags && x.customer().into_u32() == customer, "accessors");
        assert!(x.providers().as_ref().as_ptr() == prov.as_ptr() && x.providers().len() == prov.len() && x.providers().asn_count() as u32 * 4 == n, "providers kept");
        mem::forget(x);
    }
    //@harness pdu_aspa_new K fn=Aspa::new,Aspa::{version,flags,customer,size,providers}
    verif_harness!{ pdu_aspa_new; |version: u8, flags: u8, customer: u32, two: bool| {
        if two { check_aspa(version, flags, customer, &PROV8[..]) } else { check_aspa(version, flags, customer, &PROV8[..0]) }
    }}

    // ---------------- flags <-> Action ----------------
    //@harness pdu_action_flags K fn=Action::from_flags,Action::into_flags
    verif_harness!{ pdu_action_flags; |flags: u8, announce: bool| {
        let a = if announce { Action::Announce } else { Action::Withdraw };
        assert!(Action::from_flags(a.into_flags()) == a, "action survives the flags octet");
        assert!(a.into_flags() == (if announce { 1 } else { 0 }), "RFC 6810: 1 = announcement, 0 = withdrawal");
        assert!(Action::from_flags(flags).is_announce() == (flags & 1 == 1) && Action::from_flags(flags).is_withdraw() == (flags & 1 == 0), "only the lowest bit decides");
    }}

    // ---------------- Payload::new / new_if_supported / to_payload for origins ----------------
    // version gating (RFC 6810: prefixes from version 0; RFC 8210: router keys from version 1;
    // draft-8210bis: ASPA from version 2).  Origins: every version.
    //@harness pdu_payload_new_origin K fn=Payload::new,Payload::new_if_supported,Payload::{version,flags,as_partial_slice}
    verif_harness!{ pdu_payload_new_origin; |version: u8, flags: u8, v4: bool, len: u8, raw: u128, has: bool, m: u8, asn: u32| {
        let o = RouteOrigin::new(mkml(v4, len, raw, has, m), Asn::from_u32(asn));
        let p = match Payload::new_if_supported(version, flags, PayloadRef::Origin(o)) {
            Some(p) => p, None => { assert!(false, "origins are supported from version 0"); return }
        };
        let ml = if has { m } else { len };
        match p {
            Payload::V4(x) => {
                assert!(v4, "IPv4 origin gives an IPv4 prefix PDU");
                let a4 = ((raw >> 96) as u32) & !((hostmask(len) >> 96) as u32);
                assert!(x == Ipv4Prefix::new(version, flags, len, ml, Ipv4Addr::from(a4), Asn::from_u32(asn)), "the PDU is the one built from the origin's fields");
                assert!(x.version() == version && x.flags() == flags && x.prefix_len() == len && x.max_len() == ml && x.asn().into_u32() == asn, "accessors");
                assert!(IpAddr::V4(x.prefix()) == o.prefix.addr(), "address");
            }
            Payload::V6(x) => {
                assert!(!v4, "IPv6 origin gives an IPv6 prefix PDU");
                assert!(x == Ipv6Prefix::new(version, flags, len, ml, Ipv6Addr::from(raw & !hostmask(len)), Asn::from_u32(asn)), "the PDU is the one built from the origin's fields");
                assert!(x.version() == version && x.flags() == flags && x.prefix_len() == len && x.max_len() == ml && x.asn().into_u32() == asn, "accessors");
                assert!(IpAddr::V6(x.prefix()) == o.prefix.addr(), "address");
            }
            _ => assert!(false, "an origin never becomes another PDU type"),
        }
    }}
    //@harness pdu_to_payload_v4 K fn=Payload::to_payload timeout=900
    verif_harness!{ pdu_to_payload_v4; |version: u8, flags: u8, len: u8, ml: u8, addr: u32, asn: u32| {
        // every IPv4 prefix PDU a peer can send: converted exactly when the lengths are consistent
        let p = Payload::V4(Ipv4Prefix::new(version, flags, len, ml, Ipv4Addr::from(addr), Asn::from_u32(asn)));
        let ok = len <= 32 && len <= ml && ml <= 32;
        match p.to_payload() {
            Ok((a, payload::Payload::Origin(o))) => {
                assert!(ok, "accepted only with prefix_len <= max_len <= 32");
                assert!(a == action_of(flags & 1 == 1), "action from the lowest bit of the flags octet");
                assert!(o.asn.into_u32() == asn && o.prefix.prefix_len() == len && o.prefix.max_len() == Some(ml), "item fields");
                assert!(o.prefix.addr() == IpAddr::V4(Ipv4Addr::from(addr & !((hostmask(len) >> 96) as u32))), "address with host bits cleared (relaxed constructor)");
            }
            Ok(_) => assert!(false, "an IPv4 prefix PDU is an origin"),
            Err(e) => { assert!(!ok, "rejected only when the lengths are inconsistent"); mem::forget(e); }
        }
    }}
    //@harness pdu_to_payload_v6 K fn=Payload::to_payload timeout=900
    verif_harness!{ pdu_to_payload_v6; |version: u8, flags: u8, len: u8, ml: u8, addr: u128, asn: u32| {
        let p = Payload::V6(Ipv6Prefix::new(version, flags, len, ml, Ipv6Addr::from(addr), Asn::from_u32(asn)));
        let ok = len <= 128 && len <= ml && ml <= 128;
        match p.to_payload() {
            Ok((a, payload::Payload::Origin(o))) => {
                assert!(ok, "accepted only with prefix_len <= max_len <= 128");
                assert!(a == action_of(flags & 1 == 1), "action from the lowest bit of the flags octet");
                assert!(o.asn.into_u32() == asn && o.prefix.prefix_len() == len && o.prefix.max_len() == Some(ml), "item fields");
                assert!(o.prefix.addr() == IpAddr::V6(Ipv6Addr::from(addr & !hostmask(len))), "address with host bits cleared (relaxed constructor)");
            }
            Ok(_) => assert!(false, "an IPv6 prefix PDU is an origin"),
            Err(e) => { assert!(!ok, "rejected only when the lengths are inconsistent"); mem::forget(e); }
        }
    }}
    //@harness pdu_to_payload_error_pdu K fn=Payload::to_payload,Error::new timeout=900
    verif_harness!{ pdu_to_payload_error_pdu; |version: u8, flags: u8, len: u8, ml: u8, addr: u32, asn: u32| {
        // the error report built for an unacceptable prefix PDU: RFC 8210 5.11 layout, length field == octets
        assume(!(len <= 32 && len <= ml && ml <= 32));
        let x = Ipv4Prefix::new(version, flags, len, ml, Ipv4Addr::from(addr), Asn::from_u32(asn));
        let p = Payload::V4(x);
        match p.to_payload() {
            Err(e) => {
                let o = e.as_ref();
                assert!(o.len() >= 36, "header, two length fields and the 20 octet PDU");
                let h: Header = from_wire(&o[..8]);
                assert!(h.version() == version && h.pdu() == Error::PDU && h.session() == 0, "error PDU header, code 0 (corrupt data)");
                assert!(h.length() as usize == o.len(), "length field == octets written");
                assert!(&o[8..12] == &[0u8, 0, 0, 20][..] && &o[12..32] == x.as_ref(), "encapsulated PDU with its length");
                assert!(v32(o[32], o[33], o[34], o[35]) as usize == o.len() - 36, "text length field");
                mem::forget(e);
            }
            Ok(r) => { assert!(false, "must be rejected"); mem::forget(r); }
        }
    }}
    // to_payload . new == id on item and action for origins, as a chain of complete harnesses (the direct
    // harness `to_payload(new(o)) == o` exhausts CBMC's memory: measured > 30 GB):
    //   N  pdu_payload_new_origin: new(version, flags, o) is the prefix PDU with fields
    //      (prefix_len, resolved max_len, addr, asn) of o, of o's family;
    //   T  pdu_to_payload_v4/_v6: for EVERY field combination, to_payload accepts iff
    //      prefix_len <= max_len <= family maximum and returns the action of the flags octet and an
    //      origin with exactly these accessor values (address with host bits cleared);
    //   A  pdu_action_flags: from_flags(into_flags(a)) == a;
    //   G  (below) the fields of a well-formed origin are accepted by T, and any origin with these
    //      accessor values is equal to the one written (an origin whose max_len was None comes back as
    //      Some(prefix_len): equal under RouteOrigin's equality, addr_prefix::route_origin_eq_ord_hash).
    //@harness pdu_payload_origin_roundtrip_glue K fn=Payload::new,Payload::to_payload
    verif_harness!{ pdu_payload_origin_roundtrip_glue; |v4: bool, len: u8, raw: u128, has: bool, m: u8, asn: u32, v4b: bool, lenb: u8, rawb: u128, mb: u8, asnb: u32| {
        let o = RouteOrigin::new(mkml(v4, len, raw, has, m), Asn::from_u32(asn));
        // N: what Payload::new puts into the PDU
        let (plen, pml, paddr, pasn) = (o.prefix.prefix_len(), o.prefix.resolved_max_len(), o.prefix.addr(), o.asn);
        assert!(plen == len && pml == (if has { m } else { len }) && pasn.into_u32() == asn, "the values used in N");
        assert!(matches!(paddr, IpAddr::V4(_)) == v4, "family of the PDU");
        assert!(plen <= pml && pml <= fam_max(v4), "T accepts the PDU");
        match paddr {
            IpAddr::V4(a) => assert!(u32::from(a) & ((hostmask(len) >> 96) as u32) == 0, "host bits already clear: T returns this address"),
            IpAddr::V6(a) => assert!(u128::from(a) & hostmask(len) == 0, "host bits already clear: T returns this address"),
        }
        // T: any (well-formed) origin with the accessor values to_payload guarantees ...
        let b = RouteOrigin::new(mkml(v4b, lenb, rawb, true, mb), Asn::from_u32(asnb));
        assume(b.asn == pasn && b.prefix.prefix_len() == plen && b.prefix.max_len() == Some(pml) && b.prefix.addr() == paddr);
        // ... is the origin that was written
        assert!(b == o, "same origin (prefix, effective max length, AS number)");
        assert!(b.prefix.prefix() == o.prefix.prefix() && b.prefix.max_len() == Some(o.prefix.resolved_max_len()), "max length comes back resolved");
    }}

    // ---------------- router keys and ASPA through Payload::new / to_payload (static Bytes) ----------------
    fn action_of(announce: bool) -> Action { if announce { Action::Announce } else { Action::Withdraw } }
    //@harness pdu_payload_router_key_roundtrip K fn=Payload::new_if_supported,Payload::new,Payload::to_payload timeout=2400 thorough
    verif_harness!{ pdu_payload_router_key_roundtrip; |version: u8, announce: bool, ki: [u8; 20], asn: u32| {
        let action = action_of(announce);
        let item = payload::RouterKey::new(crate::crypto::keys::KeyIdentifier::from(ki), Asn::from_u32(asn), RouterKeyInfo(Bytes::from_static(&KEY4)));
        match Payload::new_if_supported(version, action.into_flags(), PayloadRef::RouterKey(&item)) {
            None => assert!(version < 1, "router keys are supported from version 1 (RFC 8210)"),
            Some(p) => {
                assert!(version >= 1, "router keys are not sent in version 0 (RFC 6810)");
                assert!(p.version() == version && p.flags() == action.into_flags(), "version and flags kept");
                if let Payload::RouterKey(ref k) = p {
                    assert!(k.fixed.header.length() == 36 && k.fixed.as_ref().len() + k.key_info.as_slice().len() == 36, "length field == octets written");
                } else { assert!(false, "router key PDU"); }
                match p.to_payload() {
                    Ok((a, payload::Payload::RouterKey(back))) => {
                        assert!(a == action, "same action");
                        assert!(back.key_identifier == item.key_identifier && back.asn == item.asn, "same key identifier and AS number");
                        assert!(back.key_info.as_slice().len() == 4 && &back.key_info.as_slice()[..4] == &KEY4[..], "same key info");
                        mem::forget(back);
                    }
                    Ok(r) => { assert!(false, "a router key comes back as a router key"); mem::forget(r); }
                    Err(e) => { assert!(false, "a PDU written by the library converts back"); mem::forget(e); }
                }
                mem::forget(p);
            }
        }
        mem::forget(item);
    }}
    fn aspa_roundtrip(version: u8, action: Action, customer: u32, prov: &'static [u8]) {
        let item = payload::Aspa::new(Asn::from_u32(customer), ProviderAsns(Bytes::from_static(prov)));
        match Payload::new_if_supported(version, action.into_flags(), PayloadRef::Aspa(&item)) {
            None => assert!(version < 2, "ASPA is supported from version 2 (draft-ietf-sidrops-8210bis)"),
            Some(p) => {
                assert!(version >= 2, "ASPA is not sent before version 2");
                assert!(p.version() == version && p.flags() == action.into_flags(), "version and flags kept");
                if let Payload::Aspa(ref k) = p {
                    assert!(k.fixed.header.length() as usize == 12 + prov.len() && k.fixed.as_ref().len() + k.providers.as_ref().len() == 12 + prov.len(), "length field == octets written");
                } else { assert!(false, "ASPA PDU"); }
                match p.to_payload() {
                    Ok((a, payload::Payload::Aspa(back))) => {
                        assert!(a == action, "same action");
                        assert!(back.customer == item.customer, "same customer");
                        assert!(back.providers.len() == prov.len() && back.providers.as_ref().as_ptr() == prov.as_ptr() || (prov.len() == 0 && back.providers.len() == 0), "same providers");
                        mem::forget(back);
                    }
                    Ok(r) => { assert!(false, "an ASPA comes back as an ASPA"); mem::forget(r); }
                    Err(e) => { assert!(false, "a PDU written by the library converts back"); mem::forget(e); }
                }
                mem::forget(p);
            }
        }
        mem::forget(item);
    }
    //@harness pdu_payload_aspa_announce_roundtrip K fn=Payload::new_if_supported,Payload::new,Payload::to_payload timeout=2400 thorough
    verif_harness!{ pdu_payload_aspa_announce_roundtrip; |version: u8, customer: u32, two: bool| {
        if two { aspa_roundtrip(version, Action::Announce, customer, &PROV8[..]) } else { aspa_roundtrip(version, Action::Announce, customer, &PROV8[..0]) }
    }}
    //@harness pdu_payload_aspa_withdraw_empty_roundtrip K fn=Payload::new_if_supported,Payload::new,Payload::to_payload timeout=2400 thorough
    verif_harness!{ pdu_payload_aspa_withdraw_empty_roundtrip; |version: u8, customer: u32| {
        aspa_roundtrip(version, Action::Withdraw, customer, &PROV8[..0]);
    }}
    // property statement: "every payload item (.., ASPA) with either action .. read back yields the same item".
    // FINDING: with action Withdraw and a non-empty provider list, to_payload returns the customer with an
    // EMPTY provider list (pdu.rs, make_payload, `Action::Withdraw => ProviderAsns::empty()`), although
    // Payload::new wrote all providers.  This harness states the property as given and fails on "same providers".
    //@harness pdu_payload_aspa_withdraw_roundtrip K fn=Payload::new_if_supported,Payload::new,Payload::to_payload timeout=2400 thorough
    verif_harness!{ pdu_payload_aspa_withdraw_roundtrip; |version: u8, customer: u32| {
        aspa_roundtrip(version, Action::Withdraw, customer, &PROV8[..]);
    }}

    // ---------------- Error::new: RFC 8210 5.11 layout (bounded sizes: Vec code) ----------------
    //@harness pdu_error_new_kb Kb fn=Error::new bound="encapsulated PDU <= 32 octets, text <= 16 octets" timeout=900 thorough
    verif_harness!{ pdu_error_new_kb; |version: u8, code: u16, pdu: [u8; 32], n: usize, text: [u8; 16], m: usize, i: usize, j: usize| {
        assume(n <= 32 && m <= 16);
        let e = Error::new(version, code, &pdu[..n], &text[..m]);
        let o = e.as_ref();
        assert!(o.len() == 16 + n + m, "octets: header, length, PDU, length, text");
        let h: Header = from_wire(&o[..8]);
        assert!(h.version() == version && h.pdu() == 10 && h.session() == code, "header: version, type 10, error code in the session field");
        assert!(h.length() as usize == o.len(), "length field == octets written");
        assert!(v32(o[8], o[9], o[10], o[11]) as usize == n, "length of the encapsulated PDU, big-endian");
        if i < n { assert!(o[12 + i] == pdu[i], "encapsulated PDU octets"); }
        assert!(v32(o[12 + n], o[13 + n], o[14 + n], o[15 + n]) as usize == m, "length of the text, big-endian");
        if j < m { assert!(o[16 + n + j] == text[j], "text octets"); }
        mem::forget(e);
    }}
}
//@end
