// Unit uri_parse (C12, parser clauses): the parsers of src/uri.rs and the character / segment checks they
// are built from, verified for ALL input lengths: `is_u8_uri_ascii`, `check_uri_ascii`,
// `starts_with_ignore_case`, `Rsync::check_path`, `Rsync::from_bytes`, `Scheme::{from_prefix, is_https,
// is_rsync}`, `Https::from_bytes` (+ the `from_slice` / `from_string` / `TryFrom<String>` / `FromStr`
// wrappers of both types).  What they establish is the data-structure invariant
// `wf_rsync(bytes, module_start, path_start)` / `wf_https(uri, path_idx)` of shared/uri_vocab.v.rs, over
// which unit uri_algebra proves the path algebra; uri_algebra takes the contracts of `check_uri_ascii` and
// `Rsync::check_path` from here through `//@stub uri_parse :: ...` links.  Contracts (`rsync_parsed` /
// `https_parsed`): accepted exactly when the text can be given offsets that satisfy the invariant; the value
// then carries the unchanged text and satisfies the invariant; otherwise the error variant as coded
// (`rsync_reject` / `https_reject`, `path_reject`).  `lemma_*_reparse` / `compose_*_reparse`: parsing the
// text of a value that satisfies the invariant gives the same value back.
//
// The std iterator idioms stay in the verified text and are modelled by std contracts:
//   * `slice.iter().all(closure)`, `Iterator::next/skip/find`, `Option::map/unwrap_or_else/is_none/is_some`,
//     `[T]::get(..n)`, `[T]::len/is_empty`, `[T] == [U; N]`, range indexing: contracts SHIPPED with vstd
//     (prophetic iterator model `IteratorSpec::remaining()`);
//   * `[T]::split(pred)`, `[T]::splitn(n, pred)`: ASSUMED here (`split_ok` / `splitn_ok`: the pieces are the
//     maximal separator-free runs, piece + separator + rest gives the input; `splitn` yields at most n
//     pieces, the n-th being the unsplit rest), as the sequence `remaining()` of the real
//     `core::slice::Split` / `SplitN` values; `Iterator::next` on them is vstd's own contract;
//   * `Iterator::enumerate` (a provided trait method Verus cannot attach a contract to): routed through the
//     environment function `iter_enumerate` whose body is the std call (R12), ASSUMED contract "yields
//     (i, x_i)"; `.skip(start).find(..).map(..).unwrap_or_else(..)` behind it are the real calls;
//   * the octets of the byte-string literals `b".."`, `b"."`, `b"rsync://"`, `b"https://"`: stated by the
//     `lit_*` lemmas (Rust language; Verus knows only their length), so the comparisons stay verbatim.
use vstd::prelude::*;
use vstd::std_specs::iter::IteratorSpec;
use vstd::string::StringSliceAdditionalSpecFns;

verus! {

// ================================================================================================
// environment: bytes crate (the same opaque stand-in unit uri_algebra uses)
// ================================================================================================
#[verifier::external_body]
pub struct Bytes { _o: u8 }
impl View for Bytes {
    type V = Seq<u8>;
    uninterp spec fn view(&self) -> Seq<u8>;
}
impl core::ops::Deref for Bytes {
    type Target = [u8];
    /// bytes: `Bytes: Deref<Target = [u8]>` is the slice of all octets; a Rust slice never exceeds isize::MAX bytes
    #[verifier::external_body]
    fn deref(&self) -> (r: &[u8]) ensures r@ == self@, r@.len() <= isize::MAX { unimplemented!() }
}
impl Bytes {
    /// bytes: `<Bytes as AsRef<[u8]>>::as_ref` is the slice of all octets
    #[verifier::external_body]
    pub fn as_ref(&self) -> (r: &[u8]) ensures r@ == self@, r@.len() <= isize::MAX { unimplemented!() }
    /// bytes: `Bytes::copy_from_slice` is a new buffer with a copy of the octets
    #[verifier::external_body]
    pub fn copy_from_slice(data: &[u8]) -> (r: Bytes) ensures r@ == data@ { unimplemented!() }
}
impl From<String> for Bytes {
    /// bytes: `impl From<String> for Bytes` takes over the string's buffer (its UTF-8 octets)
    #[verifier::external_body]
    fn from(s: String) -> (r: Bytes) ensures r@ == vstd::utf8::encode_utf8(s@) { unimplemented!() }
}

// ================================================================================================
// environment: std
// ================================================================================================
/// std: `[u8]::eq_ignore_ascii_case`: same length and byte-wise equal after `to_ascii_lowercase`
pub assume_specification [ <[u8]>::eq_ignore_ascii_case ] (a: &[u8], b: &[u8]) -> (r: bool)
    ensures r == eq_ic(a@, b@);

/// std: `u8::is_ascii_graphic`: "U+0021 '!' ..= U+007E '~'".  Not called by the current text of uri.rs; stated so
/// that the natural rewrite of the character test (printable ASCII minus a forbidden list) is DECIDED against
/// `permitted` instead of ending in an unsupported-function error
pub assume_specification [ u8::is_ascii_graphic ] (c: &u8) -> (r: bool) ensures r == (0x21 <= *c <= 0x7e);

// ---- byte-string literals --------------------------------------------------------------------------------
// Rust language: the octets of the four byte-string literals uri.rs compares against.  Verus gives a
// byte-string literal its type (length) and identity but not its octets (`reveal_strlit` exists for `str`
// literals only); these lemmas state the octets, written as the same characters.
#[verifier::external_body]
pub proof fn lit_dot_dot() ensures b".."@ == seq![b'.', b'.'] { }
#[verifier::external_body]
pub proof fn lit_dot() ensures b"."@ == seq![b'.'] { }
#[verifier::external_body]
pub proof fn lit_rsync() ensures b"rsync://"@ == seq![b'r', b's', b'y', b'n', b'c', b':', b'/', b'/'] { }
#[verifier::external_body]
pub proof fn lit_https() ensures b"https://"@ == seq![b'h', b't', b't', b'p', b's', b':', b'/', b'/'] { }

// ---- slice::Split / slice::SplitN -------------------------------------------------------------------
/// std: `core::slice::Split<'a, T, P>`, the iterator `[T]::split` returns (opaque; what it will still yield is
/// vstd's prophetic `IteratorSpec::remaining()`)
#[verifier::external_type_specification]
#[verifier::external_body]
#[verifier::reject_recursive_types(T)]
#[verifier::reject_recursive_types(P)]
pub struct ExSplit<'a, T: 'a, P: FnMut(&T) -> bool>(core::slice::Split<'a, T, P>);
/// std: `core::slice::SplitN<'a, T, P>`, the iterator `[T]::splitn` returns
#[verifier::external_type_specification]
#[verifier::external_body]
#[verifier::reject_recursive_types(T)]
#[verifier::reject_recursive_types(P)]
pub struct ExSplitN<'a, T: 'a, P: FnMut(&T) -> bool>(core::slice::SplitN<'a, T, P>);

/// `pieces` is what `s.splitn(n, pred)` yields when `pred` computes `sep`: at most n pieces; every piece but
/// the n-th is a maximal separator-free run: it is a prefix of what is left, contains no separator, and is
/// followed by a separator (which is dropped) or by the end of the input (then it is the last piece); the
/// n-th piece is all the rest, unsplit.
pub open spec fn splitn_ok<'a, T>(s: Seq<T>, n: nat, sep: spec_fn(T) -> bool, pieces: Seq<&'a [T]>) -> bool
    decreases pieces.len()
{
    if n == 0 { pieces.len() == 0 } else {
        pieces.len() >= 1 && ({
            let p = pieces[0]@;
            if n == 1 { pieces.len() == 1 && p == s } else {
                p.len() <= s.len() && p == s.subrange(0, p.len() as int)
                && (forall|i: int| 0 <= i < p.len() ==> !sep(#[trigger] p[i]))
                && if pieces.len() == 1 { p.len() == s.len() } else {
                    p.len() < s.len() && sep(s[p.len() as int])
                    && splitn_ok(s.subrange(p.len() as int + 1, s.len() as int), (n - 1) as nat, sep, pieces.drop_first())
                }
            }
        })
    }
}
/// `pieces` is what `s.split(pred)` yields when `pred` computes `sep`: the same without a bound on the number
/// of pieces (there is always at least one piece; the pieces joined by the separators give back `s`)
pub open spec fn split_ok<'a, T>(s: Seq<T>, sep: spec_fn(T) -> bool, pieces: Seq<&'a [T]>) -> bool
    decreases pieces.len()
{
    pieces.len() >= 1 && ({
        let p = pieces[0]@;
        p.len() <= s.len() && p == s.subrange(0, p.len() as int)
        && (forall|i: int| 0 <= i < p.len() ==> !sep(#[trigger] p[i]))
        && if pieces.len() == 1 { p.len() == s.len() } else {
            p.len() < s.len() && sep(s[p.len() as int])
            && split_ok(s.subrange(p.len() as int + 1, s.len() as int), sep, pieces.drop_first())
        }
    })
}
/// `pred` computes `sep`: whatever a call `pred(&x)` returns is `sep(x)`
pub open spec fn computes<T, F: FnMut(&T) -> bool>(pred: F, sep: spec_fn(T) -> bool) -> bool {
    forall|x: &T, b: bool| #[trigger] pred.ensures((x,), b) ==> b == sep(*x)
}
/// std: `[T]::split(pred)`: "an iterator over subslices separated by elements that match pred; the matched
/// element is not contained in the subslices"
pub assume_specification<T, F: FnMut(&T) -> bool> [ <[T]>::split::<F> ] (s: &[T], pred: F) -> (r: core::slice::Split<'_, T, F>)
    requires forall|i: int| 0 <= i < s@.len() ==> pred.requires((&#[trigger] s@[i],)),
    ensures
        r.obeys_prophetic_iter_laws(),
        forall|sep: spec_fn(T) -> bool| computes(pred, sep) ==> #[trigger] split_ok(s@, sep, r.remaining());
/// std: `[T]::splitn(n, pred)`: "... limited to returning at most n items; the last element returned, if any,
/// will contain the remainder of the slice"
pub assume_specification<T, F: FnMut(&T) -> bool> [ <[T]>::splitn::<F> ] (s: &[T], n: usize, pred: F) -> (r: core::slice::SplitN<'_, T, F>)
    requires forall|i: int| 0 <= i < s@.len() ==> pred.requires((&#[trigger] s@[i],)),
    ensures
        r.obeys_prophetic_iter_laws(),
        forall|sep: spec_fn(T) -> bool| computes(pred, sep) ==> #[trigger] splitn_ok(s@, n as nat, sep, r.remaining());
/// the separator test of uri.rs: `|ch| *ch == b'/'`
pub open spec fn slash() -> spec_fn(u8) -> bool { |c: u8| c == 0x2f }

// ---- iter().enumerate() ---------------------------------------------------------------------------------
/// std: `core::iter::Enumerate<I>` (opaque; `remaining()` is vstd's prophetic model)
#[verifier::reject_recursive_types(I)]
#[verifier::external_type_specification]
#[verifier::external_body]
pub struct ExEnumerate<I>(core::iter::Enumerate<I>);
/// what `Enumerate` yields over an inner iterator that yields `s`: every element with its index
pub open spec fn enumerated<T>(s: Seq<T>) -> Seq<(usize, T)> { Seq::new(s.len(), |i: int| (i as usize, s[i])) }
/// R12 stand-in for `it.enumerate()` on a slice iterator (Verus cannot give a contract to a provided trait
/// method such as `Iterator::enumerate`; `skip`, `find`, `all`, `next` have vstd contracts): std: "an
/// iterator which gives the current iteration count as well as the next value"
#[verifier::external_body]
pub fn iter_enumerate<'a>(it: core::slice::Iter<'a, u8>) -> (r: core::iter::Enumerate<core::slice::Iter<'a, u8>>)
    ensures r.obeys_prophetic_iter_laws(), r.remaining() == enumerated(it.remaining()),
{ it.enumerate() }

/// the sequence of references a slice iterator over v yields
pub open spec fn refs<'a, T>(v: Seq<T>) -> Seq<&'a T> { v.map_values(|x: T| &x) }
/// every sequence of references that points element-wise at v *is* refs(v) (extensionality); triggered by
/// `s.len()`, so it identifies `x.iter().remaining()` of an unnamed temporary (same lemma as in rrdp_deltas)
pub proof fn lemma_iter_seq<'a, T>(v: Seq<T>)
    ensures forall|s: Seq<&'a T>| s.len() == v.len() && (forall|j: int| 0 <= j < s.len() ==> *(#[trigger] s[j]) == v[j])
                ==> #[trigger] s.len() == refs(v).len() && s == refs(v),
{
    assert forall|s: Seq<&'a T>| s.len() == v.len() && (forall|j: int| 0 <= j < s.len() ==> *(#[trigger] s[j]) == v[j])
        implies #[trigger] s.len() == refs(v).len() && s == refs(v) by { assert(s =~= refs(v)); }
}

// ================================================================================================
// specification vocabulary (property statement C12)
// ================================================================================================
//@include shared/uri_vocab.v.rs

//@item src/uri.rs :: pub enum Error
//@item src/uri.rs :: pub enum Scheme keepderive=Clone,Copy
//@item src/uri.rs :: pub struct Rsync pubfields
//@item src/uri.rs :: pub struct Https pubfields

// ================================================================================================
// what the parsers promise
// ================================================================================================
impl Rsync {
    pub open spec fn wf(&self) -> bool { wf_rsync(self.bytes@, self.module_start as int, self.path_start as int) }
}
impl Https {
    pub open spec fn wf(&self) -> bool { wf_https(self.uri@, self.path_idx as int) }
}
/// `s` starts with `e`, ASCII case ignored
pub open spec fn starts_ic(s: Seq<u8>, e: Seq<u8>) -> bool { e.len() <= s.len() && eq_ic(s.subrange(0, e.len() as int), e) }
/// the text `b` can be given cached offsets that satisfy the invariant (they are unique: uri_algebra's
/// lemma_rsync_offsets_unique / lemma_https_offset_unique)
pub open spec fn rsync_acceptable(b: Seq<u8>) -> bool { exists|ms: int, ps: int| wf_rsync(b, ms, ps) }
pub open spec fn https_acceptable(b: Seq<u8>) -> bool { exists|pi: int| wf_https(b, pi) }
/// the error `Rsync::check_path(p)` reports for a path it rejects
pub open spec fn path_reject(p: Seq<u8>) -> Error { if dot_seg_first(p) { Error::DotSegments } else { Error::EmptySegments } }
/// the error `Rsync::from_bytes(b)` reports for a text it rejects: the checks in the order of the code
pub open spec fn rsync_reject(b: Seq<u8>) -> Error {
    if !all_permitted(b) { Error::InvalidCharacters }
    else if !(8 <= b.len() && eq_ic(b.subrange(0, 8), rsync_scheme())) { Error::BadScheme }
    else if !path_ok_from(b, 8) { path_reject(b.subrange(8, b.len() as int)) }
    else { Error::BadUri }
}
pub open spec fn https_reject(b: Seq<u8>) -> Error {
    if !all_permitted(b) { Error::InvalidCharacters } else { Error::BadScheme }
}
/// `r` is what parsing the text `b` as an rsync URI has to give: accepted exactly when the text is
/// acceptable; the value then carries the unchanged text and satisfies the invariant; else the error as coded
pub open spec fn rsync_parsed(b: Seq<u8>, r: Result<Rsync, Error>) -> bool {
    &&& r is Ok <==> rsync_acceptable(b)
    &&& r matches Ok(u) ==> u.bytes@ == b && u.wf()
    &&& r matches Err(e) ==> e == rsync_reject(b)
}
pub open spec fn https_parsed(b: Seq<u8>, r: Result<Https, Error>) -> bool {
    &&& r is Ok <==> https_acceptable(b)
    &&& r matches Ok(u) ==> u.uri@ == b && u.wf()
    &&& r matches Err(e) ==> e == https_reject(b)
}

// ================================================================================================
// lemmas
// ================================================================================================
// ---- check_path: the scan over the pieces of `split` --------------------------------------------------
pub open spec fn no_empty_upto(p: Seq<u8>, n: int) -> bool {
    forall|i: int| 0 <= i < n && i < p.len() && #[trigger] p[i] == 0x2f ==> i > 0 && p[i - 1] != 0x2f
}
pub open spec fn no_dot_upto(p: Seq<u8>, n: int) -> bool {
    forall|i: int| 0 <= i < n && i < p.len() ==> !#[trigger] dot_seg_at(p, 0, i)
}
/// loop invariant of check_path: `off` is where the next piece starts (len + 1 when there is none), the
/// text in front of it has no offending segment, `rest` are the pieces of `p[off..]`
pub open spec fn scan_inv<'a>(p: Seq<u8>, off: int, rest: Seq<&'a [u8]>) -> bool {
    &&& 0 <= off <= p.len() + 1
    &&& no_empty_upto(p, off) && no_dot_upto(p, off)
    &&& (off <= p.len() ==> seg_start(p, 0, off))
    &&& (if rest.len() == 0 { off == p.len() + 1 } else { off <= p.len() && split_ok(p.subrange(off, p.len() as int), slash(), rest) })
}
/// ... at the `break`: the piece that started at off - 1 was empty
pub open spec fn brk_inv<'a>(p: Seq<u8>, off: int, rest: Seq<&'a [u8]>) -> bool {
    &&& 1 <= off <= p.len() + 1
    &&& no_empty_upto(p, off - 1) && no_dot_upto(p, off - 1)
    &&& seg_start(p, 0, off - 1)
    &&& (if rest.len() == 0 { off == p.len() + 1 } else { off <= p.len() && p[off - 1] == 0x2f })
}
/// one unfolding of split_ok on a suffix of p, in terms of p's own indices
pub proof fn lemma_split_step<'a>(p: Seq<u8>, off: int, rest: Seq<&'a [u8]>)
    requires 0 <= off <= p.len(), split_ok(p.subrange(off, p.len() as int), slash(), rest),
    ensures
        rest.len() >= 1,
        off + rest[0]@.len() <= p.len(),
        rest[0]@ == p.subrange(off, off + rest[0]@.len()),
        forall|i: int| off <= i < off + rest[0]@.len() ==> #[trigger] p[i] != 0x2f,
        rest.len() == 1 ==> off + rest[0]@.len() == p.len(),
        rest.len() > 1 ==> off + rest[0]@.len() < p.len() && p[off + rest[0]@.len()] == 0x2f
            && split_ok(p.subrange(off + rest[0]@.len() + 1, p.len() as int), slash(), rest.drop_first()),
{
    let s = p.subrange(off, p.len() as int);
    let q = rest[0]@;
    let n = q.len() as int;
    assert(q =~= p.subrange(off, off + n));
    assert forall|i: int| off <= i < off + n implies #[trigger] p[i] != 0x2f by { assert(!slash()(q[i - off])); assert(q[i - off] == p[i]); }
    if rest.len() > 1 {
        assert(slash()(s[n]));
        assert(s.subrange(n + 1, s.len() as int) =~= p.subrange(off + n + 1, p.len() as int));
    }
}
/// what one round of the loop of check_path learns from the piece it looks at
pub proof fn lemma_scan_step<'a>(p: Seq<u8>, off: int, rest: Seq<&'a [u8]>)
    requires scan_inv(p, off, rest), rest.len() > 0,
    ensures ({
        let q = rest[0]@;
        let n = q.len() as int;
        &&& n == 0 ==> brk_inv(p, off + 1, rest.drop_first())
        &&& n > 0 && (q =~= seq![0x2eu8, 0x2e] || q =~= seq![0x2eu8]) ==> !path_ok(p) && dot_seg_first(p)
        &&& n > 0 && !(q =~= seq![0x2eu8, 0x2e] || q =~= seq![0x2eu8]) ==> scan_inv(p, off + n + 1, rest.drop_first())
    }),
{
    lemma_split_step(p, off, rest);
    let q = rest[0]@;
    let n = q.len() as int;
    if n > 0 {
        assert(q[0] == p[off]);
        if n > 1 { assert(q[1] == p[off + 1]); }
        if q =~= seq![0x2eu8, 0x2e] || q =~= seq![0x2eu8] {
            assert(dot_seg_at(p, 0, off));
            assert forall|j: int| 0 <= j < off implies !#[trigger] empty_seg_at(p, j) by {}
        } else {
            assert(!dot_seg_at(p, 0, off)) by {
                if dot_seg_at(p, 0, off) {
                    if seg_end(p, off + 1) { assert(n == 1) by { if n > 1 { assert(p[off + 1] != 0x2f); } } assert(q =~= seq![0x2eu8]); }
                    else { assert(n == 2) by { if n > 2 { assert(p[off + 2] != 0x2f); } } assert(q =~= seq![0x2eu8, 0x2e]); }
                }
            }
            assert forall|i: int| off < i < off + n + 1 && i < p.len() implies !#[trigger] dot_seg_at(p, 0, i) by {
                if i < off + n { assert(p[i - 1] != 0x2f); }
            }
            assert(no_dot_upto(p, off + n + 1));
            assert forall|i: int| 0 <= i < off + n + 1 && i < p.len() && #[trigger] p[i] == 0x2f implies i > 0 && p[i - 1] != 0x2f by {
                if i >= off { assert(i == off + n); assert(p[off + n - 1] != 0x2f); }
            }
        }
    }
}
/// what check_path learns after the `break` from whether there is one more piece
pub proof fn lemma_scan_end<'a>(p: Seq<u8>, off: int, rest: Seq<&'a [u8]>)
    requires brk_inv(p, off, rest),
    ensures
        rest.len() == 0 ==> path_ok(p),
        rest.len() > 0 ==> !path_ok(p) && !dot_seg_first(p),
{
    let a = off - 1;
    if rest.len() > 0 {
        assert(empty_seg_at(p, a));
        if dot_seg_first(p) {
            let i = choose|i: int| 0 <= i < p.len() && #[trigger] dot_seg_at(p, 0, i) && forall|j: int| 0 <= j < i ==> !#[trigger] empty_seg_at(p, j);
            assert(i > a);
            assert(!empty_seg_at(p, a));
        }
    }
}
/// the segment conditions on `b[8..]` as a slice of its own are those on `b` from index 8
pub proof fn lemma_path_ok_shift(b: Seq<u8>, s: int)
    requires 0 <= s <= b.len(),
    ensures path_ok(b.subrange(s, b.len() as int)) == path_ok_from(b, s),
{
    let p = b.subrange(s, b.len() as int);
    if path_ok_from(b, s) {
        assert forall|i: int| 0 <= i < p.len() && #[trigger] p[i] == 0x2f implies i > 0 && p[i - 1] != 0x2f by { assert(b[s + i] == 0x2f); }
        assert forall|i: int| 0 <= i < p.len() implies !#[trigger] dot_seg_at(p, 0, i) by {
            if dot_seg_at(p, 0, i) {
                assert(p[i] == b[s + i]);
                if i > 0 { assert(p[i - 1] == b[s + i - 1]); }
                if i + 1 < p.len() { assert(p[i + 1] == b[s + i + 1]); }
                if i + 2 < p.len() { assert(p[i + 2] == b[s + i + 2]); }
                assert(dot_seg_at(b, s, s + i));
            }
        }
    }
    if path_ok(p) {
        assert forall|i: int| s <= i < b.len() && #[trigger] b[i] == 0x2f implies i > s && b[i - 1] != 0x2f by {
            assert(p[i - s] == 0x2f);
            assert(p[i - s - 1] == b[i - 1]);
        }
        assert forall|i: int| s <= i < b.len() implies !#[trigger] dot_seg_at(b, s, i) by {
            if dot_seg_at(b, s, i) {
                let k = i - s;
                assert(p[k] == b[i]);
                if k > 0 { assert(p[k - 1] == b[i - 1]); }
                if k + 1 < p.len() { assert(p[k + 1] == b[i + 1]); }
                if k + 2 < p.len() { assert(p[k + 2] == b[i + 2]); }
                assert(dot_seg_at(p, 0, k));
            }
        }
    }
}

// ---- from_bytes: the three pieces of `splitn(3, ..)` ---------------------------------------------------
/// the pieces `b[8..].splitn(3, '/')` yields, in terms of b's own indices: a = length of the first piece
/// (authority), m = length of the second (module name)
pub open spec fn three_parts<'a>(b: Seq<u8>, parts: Seq<&'a [u8]>) -> bool {
    &&& 1 <= parts.len() <= 3
    &&& ({
        let a = parts[0]@.len() as int;
        &&& 8 + a <= b.len()
        &&& forall|i: int| 8 <= i < 8 + a ==> #[trigger] b[i] != 0x2f
        &&& (parts.len() == 1 ==> 8 + a == b.len())
        &&& (parts.len() >= 2 ==> 8 + a < b.len() && b[8 + a] == 0x2f && ({
            let m = parts[1]@.len() as int;
            &&& 9 + a + m <= b.len()
            &&& forall|i: int| 9 + a <= i < 9 + a + m ==> #[trigger] b[i] != 0x2f
            &&& (parts.len() == 2 ==> 9 + a + m == b.len())
            &&& (parts.len() == 3 ==> 9 + a + m < b.len() && b[9 + a + m] == 0x2f)
        }))
    })
}
pub proof fn lemma_splitn_step<'a>(p: Seq<u8>, off: int, n: nat, rest: Seq<&'a [u8]>)
    requires 0 <= off <= p.len(), n >= 2, splitn_ok(p.subrange(off, p.len() as int), n, slash(), rest),
    ensures
        rest.len() >= 1,
        off + rest[0]@.len() <= p.len(),
        forall|i: int| off <= i < off + rest[0]@.len() ==> #[trigger] p[i] != 0x2f,
        rest.len() == 1 ==> off + rest[0]@.len() == p.len(),
        rest.len() > 1 ==> off + rest[0]@.len() < p.len() && p[off + rest[0]@.len()] == 0x2f
            && splitn_ok(p.subrange(off + rest[0]@.len() + 1, p.len() as int), (n - 1) as nat, slash(), rest.drop_first()),
{
    let s = p.subrange(off, p.len() as int);
    let q = rest[0]@;
    let k = q.len() as int;
    assert forall|i: int| off <= i < off + k implies #[trigger] p[i] != 0x2f by { assert(!slash()(q[i - off])); assert(q[i - off] == s[i - off]); }
    if rest.len() > 1 {
        assert(slash()(s[k]));
        assert(s.subrange(k + 1, s.len() as int) =~= p.subrange(off + k + 1, p.len() as int));
    }
}
pub proof fn lemma_three_parts<'a>(b: Seq<u8>, parts: Seq<&'a [u8]>)
    requires 8 <= b.len(), splitn_ok(b.subrange(8, b.len() as int), 3, slash(), parts),
    ensures three_parts(b, parts),
{
    lemma_splitn_step(b, 8, 3, parts);
    if parts.len() > 1 {
        let a = parts[0]@.len() as int;
        let r1 = parts.drop_first();
        lemma_splitn_step(b, 9 + a, 2, r1);
        assert(r1[0] == parts[1]);
        if r1.len() > 1 {
            let m = r1[0]@.len() as int;
            let r2 = r1.drop_first();
            // the third piece is the unsplit rest
            assert(splitn_ok(b.subrange(10 + a + m, b.len() as int), 1, slash(), r2));
            assert(r2.len() == 1);
        }
    }
}
/// the decision of from_bytes, given the pieces: accepted with these offsets, or no offsets exist
pub proof fn lemma_rsync_decide<'a>(b: Seq<u8>, parts: Seq<&'a [u8]>)
    requires
        all_permitted(b), 8 <= b.len(), eq_ic(b.subrange(0, 8), rsync_scheme()), path_ok_from(b, 8),
        three_parts(b, parts),
    ensures
        parts.len() == 3 && parts[0]@.len() > 0 && parts[1]@.len() > 0
            ==> wf_rsync(b, 9 + parts[0]@.len() as int, 10 + parts[0]@.len() as int + parts[1]@.len() as int),
        !(parts.len() == 3 && parts[0]@.len() > 0 && parts[1]@.len() > 0) ==> !rsync_acceptable(b),
{
    let a = parts[0]@.len() as int;
    if parts.len() == 3 && a > 0 && parts[1]@.len() > 0 {
        let m = parts[1]@.len() as int;
        assert forall|i: int| 8 <= i < 10 + a + m - 1 && i != 9 + a - 1 implies #[trigger] b[i] != 0x2f by {}
    } else {
        assert forall|ms: int, ps: int| !wf_rsync(b, ms, ps) by {
            if wf_rsync(b, ms, ps) {
                // the first '/' behind the scheme is the one in front of the module name
                if parts.len() == 1 { assert(b[ms - 1] != 0x2f); }
                else {
                    if 8 + a < ms - 1 { assert(b[8 + a] != 0x2f); }
                    if ms - 1 < 8 + a { assert(b[ms - 1] != 0x2f); }
                    assert(ms == 9 + a);
                    let m = parts[1]@.len() as int;
                    if parts.len() == 2 { assert(b[ps - 1] != 0x2f); }
                    else {
                        if 9 + a + m < ps - 1 { assert(b[9 + a + m] != 0x2f); }
                        if ps - 1 < 9 + a + m { assert(b[ps - 1] != 0x2f); }
                        assert(ps == 10 + a + m);
                    }
                }
            }
        }
    }
}
/// "re-parses to an equal value": parsing the text of a value that satisfies the invariant is accepted and
/// gives back the same cached offsets (the offsets are a function of the text)
pub proof fn lemma_rsync_reparse(b: Seq<u8>, ms: int, ps: int, r: Result<Rsync, Error>)
    requires wf_rsync(b, ms, ps), rsync_parsed(b, r),
    ensures r matches Ok(u) && u.bytes@ == b && u.module_start == ms && u.path_start == ps,
{
    assert(rsync_acceptable(b));
    let u = r->Ok_0;
    let (ms2, ps2) = (u.module_start as int, u.path_start as int);
    if ms2 < ms { assert(b[ms2 - 1] == 0x2f); assert(false); }
    if ms2 > ms { assert(b[ms - 1] != 0x2f); assert(false); }
    if ps2 < ps { assert(b[ps2 - 1] == 0x2f); assert(false); }
    if ps2 > ps { assert(b[ps - 1] != 0x2f); assert(false); }
}
pub proof fn lemma_https_reparse(b: Seq<u8>, pi: int, r: Result<Https, Error>)
    requires wf_https(b, pi), https_parsed(b, r),
    ensures r matches Ok(u) && u.uri@ == b && u.path_idx == pi,
{
    assert(https_acceptable(b));
    let p2 = r->Ok_0.path_idx as int;
    if p2 < pi { assert(b[p2] == 0x2f); assert(false); }
    if pi < p2 { assert(b[pi] == 0x2f); assert(false); }
}
/// a text with the other scheme is not acceptable
pub proof fn lemma_schemes_differ(b: Seq<u8>)
    requires 8 <= b.len(),
    ensures !(eq_ic(b.subrange(0, 8), rsync_scheme()) && eq_ic(b.subrange(0, 8), https_scheme())),
{
    let p = b.subrange(0, 8);
    if eq_ic(p, rsync_scheme()) && eq_ic(p, https_scheme()) {
        assert(lower(p[0]) == lower(rsync_scheme()[0]));
        assert(lower(p[0]) == lower(https_scheme()[0]));
    }
}

// ================================================================================================
// the code
// ================================================================================================
//@fn src/uri.rs :: - :: is_u8_uri_ascii
//@spec
    ensures r == permitted(ch),
//@/spec
//@end

//@fn src/uri.rs :: - :: check_uri_ascii
//@sigsub R12 "<S: AsRef<[u8]>>(slice: S)" "(slice: &[u8])"
//@sub R12 "slice.as_ref().iter()" "slice.iter()"
//@sub R12 "|&ch| is_u8_uri_ascii(ch)" "|ch| -> (b: bool) ensures b == permitted(*ch) { is_u8_uri_ascii(*ch) }"
//@spec
    ensures
        r.is_ok() == all_permitted(slice@),
        r matches Err(e) ==> e == Error::InvalidCharacters,
//@/spec
//@ghost begin
    proof {
        lemma_iter_seq(slice@);
        assert forall|i: int| 0 <= i < slice@.len() implies *refs(slice@)[i] == #[trigger] slice@[i] by {}
    }
//@/ghost
//@end

//@fn src/uri.rs :: - :: starts_with_ignore_case
//@spec
    ensures r == starts_ic(s@, expected@),
//@/spec
//@end


impl Rsync {
    //@fn src/uri.rs :: impl Rsync :: check_path
    //@sub R2 "|ch| *ch == b'/'" "|ch| -> (b: bool) ensures b == (*ch == 0x2f) { *ch == b'/' }"
    //@spec
        ensures
            r.is_ok() == path_ok(path@),
            r matches Err(e) ==> e == Error::DotSegments || e == Error::EmptySegments,
            r matches Err(e) ==> (e == Error::DotSegments <==> dot_seg_first(path@)),
    //@/spec
    //@ghost before "loop {"
        let ghost mut off: int = 0;
        proof {
            assert(path.len() == path@.len());
            assert(split_ok(path@, slash(), items.remaining()));
            assert(path@.subrange(0, path@.len() as int) =~= path@);
        }
    //@/ghost
    //@loop "loop"
            invariant_except_break
                items.obeys_prophetic_iter_laws(),
                scan_inv(path@, off, items.remaining()),
            ensures
                items.obeys_prophetic_iter_laws(),
                brk_inv(path@, off, items.remaining()),
            decreases path@.len() + 1 - off,
    //@/loop
    //@ghost after "loop {"
            let ghost rest = items.remaining();
    //@/ghost
    //@ghost before "if item.is_empty()"
            proof {
                lit_dot_dot();
                lit_dot();
                lemma_scan_step(path@, off, rest);
                off = off + item@.len() + 1;
            }
    //@/ghost
    //@ghost before "if items.next()"
        proof { lemma_scan_end(path@, off, items.remaining()); }
    //@/ghost
    //@end

    //@fn src/uri.rs :: impl Rsync :: from_bytes
    //@sub R2 "|ch| *ch == b'/'" "|ch| -> (b: bool) ensures b == (*ch == 0x2f) { *ch == b'/' }"
    //@sub R2 "|s| s.len()" "|s| -> (n: usize) ensures n == s@.len() { s.len() }" n=2
    //@spec
        ensures rsync_parsed(bytes@, r),
    //@/spec
    //@ghost begin
        let ghost b = bytes@;
        proof {
            lit_rsync();
            assert(seq![0x72u8, 0x73, 0x79, 0x6e, 0x63, 0x3a, 0x2f, 0x2f] =~= rsync_scheme());
            if 8 <= b.len() { lemma_path_ok_shift(b, 8); }
        }
    //@/ghost
    //@ghost before "let authority = match"
            let ghost pp = parts.remaining();
            proof {
                assert(splitn_ok(b.subrange(8, b.len() as int), 3, slash(), pp));
                lemma_three_parts(b, pp);
                lemma_rsync_decide(b, pp);
                assert(pp.len() >= 2 ==> pp.drop_first()[0] == pp[1] && pp.drop_first().drop_first().len() == pp.len() - 2);
            }
    //@/ghost
    //@end

    //@fn src/uri.rs :: impl Rsync :: from_slice
    //@spec
        ensures rsync_parsed(slice@, r),
    //@/spec
    //@end
    //@fn src/uri.rs :: impl Rsync :: from_string
    //@spec
        ensures rsync_parsed(vstd::utf8::encode_utf8(s@), r),
    //@/spec
    //@end
    //@fn src/uri.rs :: impl TryFrom<String> for Rsync :: try_from as=try_from
    //@spec
        ensures rsync_parsed(vstd::utf8::encode_utf8(s@), r),
    //@/spec
    //@end
    //@fn src/uri.rs :: impl str::FromStr for Rsync :: from_str as=from_str
    //@sub R12 "s.as_ref()" "s.as_bytes()"
    //@spec
        ensures rsync_parsed(s.spec_bytes(), r),
    //@/spec
    //@end
}

impl Scheme {
    //@fn src/uri.rs :: impl Scheme :: from_prefix
    //@spec
        ensures
            starts_ic(s@, https_scheme()) ==> r == Ok::<(Scheme, usize), Error>((Scheme::Https, 8usize)),
            !starts_ic(s@, https_scheme()) && starts_ic(s@, rsync_scheme()) ==> r == Ok::<(Scheme, usize), Error>((Scheme::Rsync, 8usize)),
            !starts_ic(s@, https_scheme()) && !starts_ic(s@, rsync_scheme()) ==> r == Err::<(Scheme, usize), Error>(Error::BadScheme),
    //@/spec
    //@ghost begin
        proof {
            lit_https();
            lit_rsync();
            assert(seq![0x68u8, 0x74, 0x74, 0x70, 0x73, 0x3a, 0x2f, 0x2f] =~= https_scheme());
            assert(seq![0x72u8, 0x73, 0x79, 0x6e, 0x63, 0x3a, 0x2f, 0x2f] =~= rsync_scheme());
        }
    //@/ghost
    //@end
    //@fn src/uri.rs :: impl Scheme :: is_https
    //@spec
        ensures r == (self == Scheme::Https),
    //@/spec
    //@end
    //@fn src/uri.rs :: impl Scheme :: is_rsync
    //@spec
        ensures r == (self == Scheme::Rsync),
    //@/spec
    //@end
}

impl Https {
    //@fn src/uri.rs :: impl Https :: from_bytes
    //@sub R12 "bytes.iter().enumerate()" "iter_enumerate(bytes.iter())"
    //@sub R12 "|&(_, ch)| {" "|x: &(usize, &u8)| -> (b: bool) ensures b == (*x.1 == 0x2f) { let (_, ch) = *x;"
    //@sub R12 "|(idx, _)| idx" "|x: (usize, &u8)| -> (i: usize) ensures i == x.0 { let (idx, _) = x; idx }"
    //@sub R2 "|| bytes.len()" "|| -> (n: usize) ensures n == bytes@.len() { bytes.len() }"
    //@spec
        ensures https_parsed(bytes@, r),
    //@/spec
    //@ghost begin
        let ghost b = bytes@;
        proof {
            lemma_iter_seq(b);
            if 8 <= b.len() { lemma_schemes_differ(b); }
        }
    //@/ghost
    //@ghost before "Ok(Https {"
        proof {
            // what `.skip(start)` leaves of `bytes.iter().enumerate()`
            let t = enumerated(refs(b)).subrange(start as int, b.len() as int);
            assert forall|j: int| 0 <= j < t.len() implies (#[trigger] t[j]).0 == start + j && *t[j].1 == b[start + j] by {}
            assert forall|k: int| start <= k < path_idx implies #[trigger] b[k] != 0x2f by { assert(*t[k - start].1 == b[k]); }
            assert(wf_https(b, path_idx as int));
        }
    //@/ghost
    //@end

    //@fn src/uri.rs :: impl Https :: from_slice
    //@spec
        ensures https_parsed(slice@, r),
    //@/spec
    //@end
    //@fn src/uri.rs :: impl Https :: from_string
    //@spec
        ensures https_parsed(vstd::utf8::encode_utf8(s@), r),
    //@/spec
    //@end
    //@fn src/uri.rs :: impl TryFrom<String> for Https :: try_from as=try_from
    //@spec
        ensures https_parsed(vstd::utf8::encode_utf8(s@), r),
    //@/spec
    //@end
    //@fn src/uri.rs :: impl str::FromStr for Https :: from_str as=from_str
    //@sub R12 "s.as_ref()" "s.as_bytes()"
    //@spec
        ensures https_parsed(s.spec_bytes(), r),
    //@/spec
    //@end
}
// ================================================================================================
// the clause that combines parsing with the invariant, checked on the code's own results
// ================================================================================================
/// "re-parses to an equal value": parsing the octets of a value that satisfies the invariant (what join /
/// parent return, unit uri_algebra) is accepted and gives back the same text and the same cached offsets
pub fn compose_rsync_reparse(x: &Rsync)
    requires x.wf(),
{
    let r = Rsync::from_slice(x.bytes.as_ref());
    proof { lemma_rsync_reparse(x.bytes@, x.module_start as int, x.path_start as int, r); }
    assert(r matches Ok(u) && u.bytes@ == x.bytes@ && u.module_start == x.module_start && u.path_start == x.path_start);
}
pub fn compose_https_reparse(x: &Https)
    requires x.wf(),
{
    let r = Https::from_slice(x.uri.as_ref());
    proof { lemma_https_reparse(x.uri@, x.path_idx as int, r); }
    assert(r matches Ok(u) && u.uri@ == x.uri@ && u.path_idx == x.path_idx);
}

// ================================================================================================
// vacuity guards: the contracts, the assumed std contracts and the invariants are inhabited
// ================================================================================================
proof fn reach_parse() {
    // "rsync://h/m/a" is acceptable, with the offsets 10 / 12
    let c = seq![0x72u8, 0x73, 0x79, 0x6e, 0x63, 0x3a, 0x2f, 0x2f, 0x68, 0x2f, 0x6d, 0x2f, 0x61];
    assert(c.subrange(0, 8) =~= rsync_scheme());
    assert(wf_rsync(c, 10, 12));
    assert(rsync_acceptable(c));
    // "https://h/a" is acceptable, with the path index 9
    let h = seq![0x68u8, 0x74, 0x74, 0x70, 0x73, 0x3a, 0x2f, 0x2f, 0x68, 0x2f, 0x61];
    assert(h.subrange(0, 8) =~= https_scheme());
    assert(wf_https(h, 9));
    assert(https_acceptable(h));
    // the rejections: "a//b" has an empty segment first, "../a//b" a dot segment first, "a b" a forbidden octet
    let e = seq![0x61u8, 0x2f, 0x2f, 0x62];
    assert(empty_seg_at(e, 2) && e[2] == 0x2f);
    assert(!path_ok(e));
    assert(!dot_seg_first(e)) by {
        assert forall|i: int| 0 <= i < e.len() implies !#[trigger] dot_seg_at(e, 0, i) by {}
    }
    assert(path_reject(e) == Error::EmptySegments);
    let d = seq![0x2eu8, 0x2e, 0x2f, 0x61, 0x2f, 0x2f, 0x62];
    assert(dot_seg_at(d, 0, 0));
    assert(dot_seg_first(d));
    assert(!path_ok(d));
    assert(path_reject(d) == Error::DotSegments);
    let f = seq![0x61u8, 0x20, 0x62];
    assert(!permitted(f[1]));
    assert(rsync_reject(f) == Error::InvalidCharacters && https_reject(f) == Error::InvalidCharacters);
}
/// the assumed contracts of `split` / `splitn` hold of what std yields for "h/m/a/b" (split: "h" "m" "a" "b";
/// splitn(3): "h" "m" "a/b"), and give the parser its three parts
proof fn reach_split(x: &[u8], y: &[u8], z: &[u8], v: &[u8], w: &[u8])
    requires x@ == seq![0x68u8], y@ == seq![0x6du8], z@ == seq![0x61u8, 0x2f, 0x62], v@ == seq![0x61u8], w@ == seq![0x62u8],
    ensures
        split_ok(seq![0x68u8, 0x2f, 0x6d, 0x2f, 0x61, 0x2f, 0x62], slash(), seq![x, y, v, w]),
        splitn_ok(seq![0x68u8, 0x2f, 0x6d, 0x2f, 0x61, 0x2f, 0x62], 3, slash(), seq![x, y, z]),
        three_parts(seq![0x72u8, 0x73, 0x79, 0x6e, 0x63, 0x3a, 0x2f, 0x2f, 0x68, 0x2f, 0x6d, 0x2f, 0x61, 0x2f, 0x62], seq![x, y, z]),
        scan_inv(seq![0x68u8, 0x2f, 0x6d, 0x2f, 0x61, 0x2f, 0x62], 0, seq![x, y, v, w]),
{
    let s0 = seq![0x68u8, 0x2f, 0x6d, 0x2f, 0x61, 0x2f, 0x62];
    let s1 = seq![0x6du8, 0x2f, 0x61, 0x2f, 0x62];
    let s2 = seq![0x61u8, 0x2f, 0x62];
    let s3 = seq![0x62u8];
    assert(s0.subrange(2, 7) =~= s1 && s1.subrange(2, 5) =~= s2 && s2.subrange(2, 3) =~= s3);
    assert(s0.subrange(0, 1) =~= x@ && s1.subrange(0, 1) =~= y@ && s2.subrange(0, 1) =~= v@ && s3.subrange(0, 1) =~= w@);
    let (p0, p1, p2, p3) = (seq![x, y, v, w], seq![y, v, w], seq![v, w], seq![w]);
    assert(p0.drop_first() =~= p1 && p1.drop_first() =~= p2 && p2.drop_first() =~= p3);
    assert(split_ok(s3, slash(), p3));
    assert(split_ok(s2, slash(), p2));
    assert(split_ok(s1, slash(), p1));
    assert(split_ok(s0, slash(), p0));
    let (q0, q1, q2) = (seq![x, y, z], seq![y, z], seq![z]);
    assert(q0.drop_first() =~= q1 && q1.drop_first() =~= q2);
    assert(splitn_ok(s2, 1, slash(), q2));
    assert(splitn_ok(s1, 2, slash(), q1));
    assert(splitn_ok(s0, 3, slash(), q0));
    let b = seq![0x72u8, 0x73, 0x79, 0x6e, 0x63, 0x3a, 0x2f, 0x2f, 0x68, 0x2f, 0x6d, 0x2f, 0x61, 0x2f, 0x62];
    assert(b.subrange(8, 15) =~= s0);
    lemma_three_parts(b, q0);
    assert(s0.subrange(0, 7) =~= s0);
    assert(scan_inv(s0, 0, p0));
}

} // verus!
fn main() {}
