// Unit slurm (C15), Kani side: what the Verus unit assumes about leaf types is proved here on
// the compiled code, and the prefix-filter decision is re-proved end to end (real covers()).
//@features ca,rtr,slurm
//@include addr_prefix

//@append src/slurm.rs
#[cfg(any(kani, verif_replay))]
#[allow(dead_code, unused)]
mod verif_slurm {
    use super::*;
    use crate::verif_support::{assume, reach};
    use crate::resources::addr::verif_addr_prefix::{mk, mkml, spec_covers};

    //@harness key_identifier_eq K fn=PartialEq::eq(KeyIdentifier)
    verif_harness!{ #[kani::unwind(22)] key_identifier_eq; |a: [u8; 20], b: [u8; 20]| {
        let (x, y) = (KeyIdentifier::from(a), KeyIdentifier::from(b));
        assert!((x == y) == (a == b), "KeyIdentifier equality is equality of the 20 octets");
    }}

    //@harness prefix_filter_drop_origin K fn=PrefixFilter::drop_origin
    verif_harness!{ prefix_filter_drop_origin; |hp: bool, v4f: bool, lf: u8, rf: u128, ha: bool, af: u32,
                                                v4o: bool, lo: u8, ro: u128, hm: bool, mo: u8, ao: u32| {
        let fp = mk(v4f, lf, rf);
        let f = PrefixFilter::new(if hp { Some(fp) } else { None }, if ha { Some(Asn::from_u32(af)) } else { None }, None);
        let o = rtr::RouteOrigin::new(mkml(v4o, lo, ro, hm, mo), Asn::from_u32(ao));
        let want = (hp || ha) && (!hp || spec_covers(&fp, &o.prefix.prefix())) && (!ha || af == ao);
        assert!(f.drop_origin(o) == want, "prefix filter: some criterion present and every present criterion matches");
        assert!(f.drop_payload(&rtr::Payload::Origin(o)) == want, "drop_payload dispatches origins");
    }}

    //@harness aspa_filter_drop K fn=AspaFilter::drop_aspa
    verif_harness!{ aspa_filter_drop; |h: bool, c: u32, a: u32| {
        let f = AspaFilter::new(if h { Some(Asn::from_u32(c)) } else { None }, None);
        let p = rtr::Payload::aspa(Asn::from_u32(a), crate::rtr::pdu::ProviderAsns::empty());
        assert!(f.drop_payload(&p) == (h && c == a), "aspa filter matches exactly the customer AS");
    }}
}
//@end
