// Unit xml_limit (C09): the read-limit mechanism of src/xml/decode.rs.
//   BufReadCounter::{new, reset, limit, fill_buf, consume} and Reader::reset_and_limit.
//   Data-structure contract over the real fields `trip` / `limit`, relative to the assumed contract of
//   the inner `io::BufRead` (trait stand-in below), and the lemma of the property statement:
//   as long as every fill_buf since the last reset succeeded, the number of bytes consumed from the
//   underlying reader since that reset is at most `limit + max_buf` ("limit plus one buffer").
//   The `io::BufRead` trait-impl methods are emitted as inherent methods (R3).
use vstd::prelude::*;

verus! {

// ---- environment: std::io (stand-in) -----------------------------------------------------------------
pub mod io {
    use super::*;
    /// std::io::Error
    #[verifier::external_body]
    pub struct Error { _o: u8 }
    pub type Result<T> = core::result::Result<T, Error>;
    impl Error {
        /// std::io::Error::other (total, no precondition)
        #[verifier::external_body]
        pub fn other<E>(error: E) -> Error { unimplemented!() }
    }
    /// Assumed contract of std::io::BufRead as documented in std: `fill_buf` hands out the internal
    /// buffer (never more than `max_buf` bytes) without consuming; `consume(amt)` must not be given
    /// more than the buffer last handed out still holds.
    pub trait BufRead: Sized {
        /// upper bound of the length of any buffer `fill_buf` returns (capacity of the internal buffer)
        spec fn max_buf(&self) -> nat;
        /// bytes of the buffer last returned by `fill_buf` that have not been consumed yet
        spec fn avail(&self) -> nat;
        /// total number of bytes consumed so far (position in the byte stream)
        spec fn consumed(&self) -> nat;
        /// whether the next `fill_buf` call succeeds (the outcome is the underlying reader's business)
        spec fn next_fill_ok(&self) -> bool;
        /// law: the unconsumed rest of a buffer is never longer than the buffer capacity
        proof fn avail_bound(&self)
            ensures self.avail() <= self.max_buf();

        fn fill_buf(&mut self) -> (r: Result<&[u8]>)
            ensures
                final(self).max_buf() == old(self).max_buf(),
                final(self).consumed() == old(self).consumed(),
                r.is_ok() == old(self).next_fill_ok(),
                r matches Ok(b) ==> b@.len() == final(self).avail() && b@.len() <= final(self).max_buf();

        fn consume(&mut self, amt: usize)
            requires amt <= old(self).avail(),
            ensures
                final(self).max_buf() == old(self).max_buf(),
                final(self).consumed() == old(self).consumed() + amt,
                final(self).avail() == old(self).avail() - amt;
    }
}

/// stands for `format!(template, a, b)` (Verus has no model of format!): some String, no other effect
#[verifier::external_body]
pub fn format_2(template: &str, a: &u64, b: &u64) -> String { unimplemented!() }

// ---- environment: quick_xml (stand-in) ------------------------------------------------------------------
pub mod quick_xml {
    use super::*;
    /// quick_xml::NsReader<R>: owns the underlying reader `inner()` plus parser state `parser()`
    #[verifier::external_body]
    #[verifier::reject_recursive_types(R)]
    pub struct NsReader<R> { _o: core::marker::PhantomData<R> }
    #[verifier::external_body]
    pub struct ParserState { _o: u8 }
    impl<R> NsReader<R> {
        pub uninterp spec fn inner(&self) -> R;
        pub uninterp spec fn parser(&self) -> ParserState;
        /// quick_xml: "Gets a mutable reference to the underlying reader"
        #[verifier::external_body]
        pub fn get_mut(&mut self) -> (r: &mut R)
            ensures *r == old(self).inner(), final(self).inner() == *final(r), final(self).parser() == old(self).parser(),
        { unimplemented!() }
    }
    /// quick_xml::Error (opaque)
    #[verifier::external_body]
    pub struct Error { _o: u8 }
    /// quick_xml::events::Event<'a>: the variants of quick-xml 0.39 with their payloads made opaque
    pub enum Event { Start(u8), End(u8), Empty(u8), Text(u8), CData(u8), Comment(u8), Decl(u8), PI(u8), DocType(u8), GeneralRef(u8), Eof }
    impl<R: super::io::BufRead> NsReader<super::BufReadCounter<R>> {
        /// quick_xml reads the next event.  It knows its underlying reader only as an `io::BufRead`
        /// (fill_buf / consume), so it cannot change the limit of the counting reader: that frame is the
        /// ASSUMED part; what it does to trip / the inner reader is left open.
        #[verifier::external_body]
        pub fn read_event_into(&mut self, buf: &mut Vec<u8>) -> (r: Result<Event, Error>)
            ensures final(self).inner().limit == old(self).inner().limit,
        { unimplemented!() }
    }
}

// ---- assumed contract of std (listed in xml_limit.trusted) ---------------------------------------------
pub assume_specification<T: core::default::Default, E> [ core::result::Result::<T, E>::unwrap_or_default ] (res: core::result::Result<T, E>) -> (r: T)
    ensures res matches Ok(t) ==> r == t;

// ---- the types of src/xml/decode.rs ------------------------------------------------------------------------
//@item src/xml/decode.rs :: struct BufReadCounter pubfields
#[verifier::reject_recursive_types(R)]
//@item src/xml/decode.rs :: pub struct Reader pubfields

// ---- specification vocabulary ---------------------------------------------------------------------------
pub open spec fn sat64(n: int) -> int { if n <= u64::MAX { n } else { u64::MAX as int } }

/// bytes consumed from the underlying reader since stream position `base`
pub open spec fn used_since<R: io::BufRead>(c: BufReadCounter<R>, base: nat) -> int {
    c.reader.consumed() - base
}
/// `trip` is the (saturated) number of bytes consumed since stream position `base` (the last reset)
pub open spec fn counted_since<R: io::BufRead>(c: BufReadCounter<R>, base: nat) -> bool {
    base <= c.reader.consumed() && c.trip as int == sat64(used_since(c, base))
}
/// a limit is configured (0 disables the limit; u64::MAX can never be exceeded by a saturating u64)
pub open spec fn limit_effective<R: io::BufRead>(c: BufReadCounter<R>) -> bool {
    0 < c.limit < u64::MAX
}
/// the condition under which `fill_buf` refuses to hand out a buffer, as coded
pub open spec fn over_limit<R: io::BufRead>(c: BufReadCounter<R>) -> bool {
    c.limit > 0 && c.trip > c.limit
}
/// Inductive invariant of the property statement: since the reset at `base`, what was consumed plus
/// what has been handed out but not yet consumed is at most the limit plus one buffer.
pub open spec fn within_limit_since<R: io::BufRead>(c: BufReadCounter<R>, base: nat) -> bool {
    &&& counted_since(c, base)
    &&& c.reader.avail() <= c.reader.max_buf()
    &&& limit_effective(c) ==> used_since(c, base) + c.reader.avail() <= c.limit + c.reader.max_buf()
}

/// THE LEMMA: "never reads more than the configured per-element limit plus one buffer beyond the
/// start of the element" - while the invariant holds (reset established it, every successful fill_buf
/// and every consume preserved it) the bytes consumed since the reset are bounded.
pub proof fn lemma_limit_plus_one_buffer<R: io::BufRead>(c: BufReadCounter<R>, base: nat)
    requires within_limit_since(c, base), limit_effective(c),
    ensures
        c.reader.consumed() - base <= c.limit + c.reader.max_buf(),
        // even counting what the inner reader has fetched into its buffer but not yet handed on
        c.reader.consumed() + c.reader.avail() - base <= c.limit + c.reader.max_buf(),
{}

/// once more than `limit` bytes were consumed since the reset, fill_buf refuses (no further buffer)
pub proof fn lemma_over_limit_refuses<R: io::BufRead>(c: BufReadCounter<R>, base: nat)
    requires counted_since(c, base), limit_effective(c), used_since(c, base) > c.limit,
    ensures over_limit(c),
{}

// ---- the same statement over whole call sequences ("along any sequence of fill_buf/consume calls") ----------
/// state change of a fill_buf call that returned Ok (part of fill_buf's proved postcondition)
pub open spec fn fill_ok_step<R: io::BufRead>(pre: BufReadCounter<R>, post: BufReadCounter<R>) -> bool {
    &&& !over_limit(pre)
    &&& post.trip == pre.trip && post.limit == pre.limit
    &&& post.reader.consumed() == pre.reader.consumed()
    &&& post.reader.max_buf() == pre.reader.max_buf()
    &&& post.reader.avail() <= post.reader.max_buf()
}
/// state change of a consume(amt) call (consume's proved postcondition)
pub open spec fn consume_step<R: io::BufRead>(pre: BufReadCounter<R>, post: BufReadCounter<R>, amt: nat) -> bool {
    &&& amt <= pre.reader.avail()
    &&& post.limit == pre.limit
    &&& post.trip as int == sat64(pre.trip + amt)
    &&& post.reader.consumed() == pre.reader.consumed() + amt
    &&& post.reader.avail() == pre.reader.avail() - amt
    &&& post.reader.max_buf() == pre.reader.max_buf()
}
pub open spec fn step<R: io::BufRead>(pre: BufReadCounter<R>, post: BufReadCounter<R>) -> bool {
    fill_ok_step(pre, post) || exists|amt: nat| consume_step(pre, post, amt)
}
/// t[0] is the state right after reset (+ limit); every further state results from a successful
/// fill_buf or from a consume
pub open spec fn run_since_reset<R: io::BufRead>(t: Seq<BufReadCounter<R>>) -> bool {
    &&& t.len() > 0
    &&& t[0].trip == 0
    &&& t[0].reader.avail() <= t[0].reader.max_buf()
    &&& forall|i: int| 0 <= i < t.len() - 1 ==> step(#[trigger] t[i], t[i + 1])
}
pub proof fn lemma_step_preserves<R: io::BufRead>(pre: BufReadCounter<R>, post: BufReadCounter<R>, base: nat)
    requires within_limit_since(pre, base), step(pre, post),
    ensures within_limit_since(post, base), post.limit == pre.limit, post.reader.max_buf() == pre.reader.max_buf(),
{}
pub proof fn lemma_run_inv<R: io::BufRead>(t: Seq<BufReadCounter<R>>, i: int)
    requires run_since_reset(t), 0 <= i < t.len(),
    ensures
        within_limit_since(t[i], t[0].reader.consumed()),
        t[i].limit == t[0].limit, t[i].reader.max_buf() == t[0].reader.max_buf(),
    decreases i,
{
    if i > 0 {
        lemma_run_inv(t, i - 1);
        assert(step(t[i - 1], t[i - 1 + 1]));
        lemma_step_preserves(t[i - 1], t[i], t[0].reader.consumed());
    }
}
/// THE LEMMA over call sequences: in every state of a run since the last reset, at most
/// limit + max_buf bytes have been consumed since that reset
pub proof fn lemma_run_bounded<R: io::BufRead>(t: Seq<BufReadCounter<R>>)
    requires run_since_reset(t), limit_effective(t[0]),
    ensures forall|i: int| 0 <= i < t.len() ==>
        (#[trigger] t[i]).reader.consumed() - t[0].reader.consumed() <= t[0].limit + t[0].reader.max_buf(),
{
    assert forall|i: int| 0 <= i < t.len() implies
        (#[trigger] t[i]).reader.consumed() - t[0].reader.consumed() <= t[0].limit + t[0].reader.max_buf() by {
        lemma_run_inv(t, i);
    }
}

impl<R: io::BufRead> BufReadCounter<R> {
    //@fn src/xml/decode.rs :: impl<R: io::BufRead> BufReadCounter<R> :: new
    //@spec
        ensures r.reader == reader, r.trip == 0, r.limit == 0,
    //@/spec
    //@end

    //@fn src/xml/decode.rs :: impl<R: io::BufRead> BufReadCounter<R> :: reset
    //@spec
        ensures
            final(self).trip == 0, final(self).limit == old(self).limit, final(self).reader == old(self).reader,
            // establishes the invariant with base = the current stream position, for whatever limit
            within_limit_since(*final(self), final(self).reader.consumed()),
    //@/spec
    //@ghost begin
        proof { self.reader.avail_bound(); }
    //@/ghost
    //@end

    //@fn src/xml/decode.rs :: impl<R: io::BufRead> BufReadCounter<R> :: limit
    //@spec
        ensures
            final(self).limit == limit, final(self).trip == old(self).trip, final(self).reader == old(self).reader,
            // directly after a reset any limit may be set
            forall|base: nat| within_limit_since(*old(self), base) && used_since(*old(self), base) == 0
                ==> within_limit_since(*final(self), base),
    //@/spec
    //@end

    //@fn src/xml/decode.rs :: impl<R: io::BufRead> io::BufRead for BufReadCounter<R> :: fill_buf as=fill_buf
    //@sub R12 "format!(" "format_2("
    //@spec
        ensures
            final(self).trip == old(self).trip, final(self).limit == old(self).limit,
            // Err whenever limit > 0 && trip > limit; nothing is touched
            over_limit(*old(self)) ==> r.is_err() && final(self).reader == old(self).reader,
            // otherwise delegates to the inner reader
            !over_limit(*old(self)) ==> r.is_ok() == old(self).reader.next_fill_ok()
                && final(self).reader.consumed() == old(self).reader.consumed()
                && final(self).reader.max_buf() == old(self).reader.max_buf()
                && (r matches Ok(b) ==> b@.len() == final(self).reader.avail()),
            r.is_ok() ==> fill_ok_step(*old(self), *final(self)),
            // a successful fill_buf preserves the invariant
            forall|base: nat| within_limit_since(*old(self), base) && r.is_ok() ==> within_limit_since(*final(self), base),
            forall|base: nat| counted_since(*old(self), base) ==> counted_since(*final(self), base),
    //@/spec
    //@ghost begin
        proof { self.reader.avail_bound(); }
    //@/ghost
    //@end

    //@fn src/xml/decode.rs :: impl<R: io::BufRead> io::BufRead for BufReadCounter<R> :: consume as=consume
    //@spec
        requires amt <= old(self).reader.avail(),
        ensures
            final(self).limit == old(self).limit,
            final(self).trip as int == sat64(old(self).trip + amt),
            final(self).reader.consumed() == old(self).reader.consumed() + amt,
            final(self).reader.avail() == old(self).reader.avail() - amt,
            final(self).reader.max_buf() == old(self).reader.max_buf(),
            consume_step(*old(self), *final(self), amt as nat),
            // consume preserves the invariant
            forall|base: nat| within_limit_since(*old(self), base) ==> within_limit_since(*final(self), base),
            forall|base: nat| counted_since(*old(self), base) ==> counted_since(*final(self), base),
    //@/spec
    //@end
}

impl<R: io::BufRead> Reader<R> {
    //@fn src/xml/decode.rs :: impl<R: io::BufRead> Reader<R> :: reset_and_limit
    //@spec
        ensures
            final(self).buf == old(self).buf,
            final(self).reader.parser() == old(self).reader.parser(),
            final(self).reader.inner().reader == old(self).reader.inner().reader,
            final(self).reader.inner().trip == 0,
            final(self).reader.inner().limit == limit,
            within_limit_since(final(self).reader.inner(), final(self).reader.inner().reader.consumed()),
    //@/spec
    //@end
}

// ---- the limit stays in force: Reader / Content functions around the mechanism -------------------------------
// "never reads more than the configured per-element limit plus one buffer beyond the start of the offending
// element, however long ... a whitespace run is": the budget set for an element must still be in force when the
// element has been read - it is what bounds the text, comments and blanks that FOLLOW it until the next limited
// item sets its own - and the epilogue is read under the last budget.  So: each *_with_limit function returns
// with exactly the limit it was given in force, whatever its outcome; end / take_end leave the limit alone.
use quick_xml::Event;
//@item src/xml/decode.rs :: pub enum Error
impl vstd::std_specs::convert::FromSpecImpl<quick_xml::Error> for Error {
    open spec fn obeys_from_spec() -> bool { false }
    open spec fn from_spec(v: quick_xml::Error) -> Self { arbitrary() }
}
impl From<quick_xml::Error> for Error {
    //@fn src/xml/decode.rs :: impl From<quick_xml::Error> for Error :: from
    //@end
}
/// opaque stand-ins for xml::decode::{Element, Text} handed to the caller's closure, and for quick_xml's AttrError
#[verifier::external_body]
pub struct Element { _o: u8 }
#[verifier::external_body]
pub struct Text { _o: u8 }
#[verifier::external_body]
pub struct AttrError { _o: u8 }
//@item src/xml/decode.rs :: pub struct Content pubfields

pub open spec fn limit_of<R: io::BufRead>(r: Reader<R>) -> u64 { r.reader.inner().limit }

impl<R: io::BufRead> Reader<R> {
    /// Reader::start: an event loop over quick_xml (generic closure, borrowed events): NOT verified here.
    /// ASSUMED frame: it does not touch the limit (its text never mentions `limit(`/`reset_and_limit`).
    #[verifier::external_body]
    pub fn start<F, E>(&mut self, op: F) -> (r: Result<Content, E>)
        ensures limit_of(*final(self)) == limit_of(*old(self))
    { unimplemented!() }

    //@fn src/xml/decode.rs :: impl<R: io::BufRead> Reader<R> :: start_with_limit
    //@sigsub R12 "where F: FnOnce(Element) -> Result<(), E>, E: From<Error>" ""
    //@spec
        ensures limit_of(*final(self)) == limit,
    //@/spec
    //@end

    #[verifier::exec_allows_no_decreases_clause]
    //@fn src/xml/decode.rs :: impl<R: io::BufRead> Reader<R> :: end
    //@spec
        ensures limit_of(*final(self)) == limit_of(*old(self)),
    //@/spec
    //@loop "loop"
        invariant limit_of(*self) == limit_of(*old(self)),
    //@/loop
    //@end
}

impl Content {
    /// Content::take_element / take_opt_element / take_text: event loops with generic closures: NOT verified here.
    /// ASSUMED frame: they do not touch the limit.
    #[verifier::external_body]
    pub fn take_element<R: io::BufRead, F, E>(&self, reader: &mut Reader<R>, op: F) -> (r: Result<Content, E>)
        ensures limit_of(*final(reader)) == limit_of(*old(reader))
    { unimplemented!() }
    #[verifier::external_body]
    pub fn take_opt_element<R: io::BufRead, F, E>(&mut self, reader: &mut Reader<R>, op: F) -> (r: Result<Option<Content>, E>)
        ensures limit_of(*final(reader)) == limit_of(*old(reader))
    { unimplemented!() }
    #[verifier::external_body]
    pub fn take_text<R: io::BufRead, F, T, E>(&mut self, reader: &mut Reader<R>, op: F) -> (r: Result<T, E>)
        ensures limit_of(*final(reader)) == limit_of(*old(reader))
    { unimplemented!() }

    //@fn src/xml/decode.rs :: impl Content :: take_element_with_limit
    //@sigsub R12 "where R: io::BufRead, F: FnOnce(Element) -> Result<(), E>, E: From<Error>" "where R: io::BufRead"
    //@spec
        ensures limit_of(*final(reader)) == limit,
    //@/spec
    //@end

    //@fn src/xml/decode.rs :: impl Content :: take_opt_element_with_limit
    //@sigsub R12 "F: FnOnce(Element) -> Result<(), E>," ""
    //@sigsub R12 "E: From<Error>" ""
    //@spec
        ensures limit_of(*final(reader)) == limit,
    //@/spec
    //@end

    //@fn src/xml/decode.rs :: impl Content :: take_text_with_limit
    //@sigsub R12 "F: FnOnce(Text) -> Result<T, E>," ""
    //@sigsub R12 "E: From<Error>" ""
    //@spec
        ensures limit_of(*final(reader)) == limit,
    //@/spec
    //@end

    #[verifier::exec_allows_no_decreases_clause]
    //@fn src/xml/decode.rs :: impl Content :: take_end
    //@spec
        ensures limit_of(*final(reader)) == limit_of(*old(reader)),
    //@/spec
    //@loop "loop"
        invariant limit_of(*reader) == limit_of(*old(reader)),
    //@/loop
    //@end
}

// ---- vacuity guards -------------------------------------------------------------------------------------------
/// a reader satisfying the assumed BufRead contract: the exhausted reader
pub struct WEmpty { pub e: Vec<u8> }
impl io::BufRead for WEmpty {
    open spec fn max_buf(&self) -> nat { 0 }
    open spec fn avail(&self) -> nat { 0 }
    open spec fn consumed(&self) -> nat { 0 }
    open spec fn next_fill_ok(&self) -> bool { self.e@.len() == 0 }
    proof fn avail_bound(&self) {}
    fn fill_buf(&mut self) -> (r: io::Result<&[u8]>) {
        if self.e.len() == 0 { Ok(self.e.as_slice()) } else { Err(io::Error::other(0u8)) }
    }
    fn consume(&mut self, amt: usize) {}
}

proof fn reach_limit(c: BufReadCounter<WEmpty>, base: nat)
    requires c.trip == 0, c.limit == 5, base == 0,
    ensures within_limit_since(c, base), limit_effective(c), !over_limit(c), run_since_reset(seq![c]),
{
    assert(seq![c][0] == c);
}

} // verus!
fn main() {}
