// Unit mft_name (C14), Kani side, on the compiled FileAndHash::validate_file_name.
//@features ca,rtr,slurm

//@append src/repository/manifest.rs
#[cfg(any(kani, verif_replay))]
#[allow(dead_code, unused)]
mod verif_mft_name {
    use super::*;
    use crate::verif_support::{assume, reach};

    fn is_alpha(c: u8) -> bool { (0x41..=0x5a).contains(&c) || (0x61..=0x7a).contains(&c) }
    fn is_alnum(c: u8) -> bool { is_alpha(c) || (0x30..=0x39).contains(&c) }
    fn stem_char(c: u8) -> bool { c == b'-' || c == b'_' || is_alnum(c) }
    /// RFC 9286 4.2.2 / property statement: one or more of [A-Za-z0-9_-], a dot, three letters
    fn valid_mft_name(s: &[u8]) -> bool {
        if s.len() < 5 { return false }
        let k = s.len() - 4;
        let mut i = 0;
        while i < k { if !stem_char(s[i]) { return false } i += 1; }
        s[k] == b'.' && is_alpha(s[k + 1]) && is_alpha(s[k + 2]) && is_alpha(s[k + 3])
    }

    //@harness ascii_class_tables K fn=u8::is_ascii_alphabetic,u8::is_ascii_alphanumeric
    verif_harness!{ ascii_class_tables; |c: u8| {
        assert!(c.is_ascii_alphabetic() == is_alpha(c), "is_ascii_alphabetic");
        assert!(c.is_ascii_alphanumeric() == is_alnum(c), "is_ascii_alphanumeric");
    }}

    //@harness mft_ext_complete K fn=FileAndHash::validate_file_name
    verif_harness!{ #[kani::unwind(7)] mft_ext_complete; |s: u8, d: u8, x: u8, y: u8, z: u8| {
        // one stem byte, one separator byte, every 3-byte tail: complete for the extension clause
        let name = [s, d, x, y, z];
        let ok = FileAndHash::<Bytes, Bytes>::validate_file_name(&name).is_ok();
        assert!(ok == (stem_char(s) && d == b'.' && is_alpha(x) && is_alpha(y) && is_alpha(z)), "5-byte names: Ok <=> valid");
    }}

    //@harness mft_name_kb_n8 Kb fn=FileAndHash::validate_file_name bound="names of at most 8 bytes, every byte value"
    verif_harness!{ #[kani::unwind(10)] mft_name_kb_n8; |b: [u8; 8], len: usize| {
        assume(len <= 8);
        let name = &b[..len];
        let ok = FileAndHash::<Bytes, Bytes>::validate_file_name(name).is_ok();
        assert!(ok == valid_mft_name(name), "Ok <=> RFC 9286 name (bounded length)");
    }}
}
//@end
