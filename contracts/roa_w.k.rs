// Unit roa_w (C02): WITNESS SEARCH ONLY (kind W) - proves nothing, never counted.
// "every ROA prefix must lie inside the EE certificate's validated IP resources and an ASPA customer AS inside its
// AS resources (with no IP resources and no inheritance)": the COMPILED RouteOriginAttestation::verify and
// AsProviderAttestation::verify run natively against resource certificates with arbitrary validated resources.
// A helper appended to cert.rs builds the ResourceCert (its fields are private to that module) from the decoded
// fixture test-data/repository/ta.cer with the resource extensions and the resolved resources replaced; the
// clauses are written down independently over plain integer intervals.  A hit is a concrete input, replayed.
// This unit stands behind the Verus unit roa_aspa_verify for changes that route verify() through helpers outside
// that unit's environment (round-5 changes C02-roa-covered-run-skip-r5, C02-aspa-as-verify-covered-r5).
//@features ca,rtr,slurm

//@append src/repository/cert.rs
#[cfg(any(kani, verif_replay))]
#[allow(dead_code, unused)]
pub(crate) mod verif_roa_w_rc {
    use super::*;
    /// how a resource extension of the certificate itself looks
    #[derive(Clone, Copy, PartialEq, Debug)]
    pub enum Ext { Missing, Inherit, Blocks }
    /// a ResourceCert with the given resolved resources on top of the decoded fixture certificate
    pub fn make(v4: IpBlocks, v6: IpBlocks, asb: AsBlocks, ip_ext: (Ext, Ext), as_ext: Ext) -> ResourceCert {
        let mut cert = Cert::decode(include_bytes!("../../test-data/repository/ta.cer").as_ref()).unwrap();
        cert.tbs.v4_resources = match ip_ext.0 { Ext::Missing => IpResources::missing(), Ext::Inherit => IpResources::inherit(), Ext::Blocks => IpResources::blocks(v4.clone()) };
        cert.tbs.v6_resources = match ip_ext.1 { Ext::Missing => IpResources::missing(), Ext::Inherit => IpResources::inherit(), Ext::Blocks => IpResources::blocks(v6.clone()) };
        cert.tbs.as_resources = match as_ext { Ext::Missing => AsResources::missing(), Ext::Inherit => AsResources::inherit(), Ext::Blocks => AsResources::blocks(asb.clone()) };
        ResourceCert { cert, v4_resources: v4, v6_resources: v6, as_resources: asb, tal: TalInfo::from_name("verif".into()).into_arc() }
    }
}
//@end

//@append src/repository/roa.rs
#[cfg(any(kani, verif_replay))]
#[allow(dead_code, unused)]
mod verif_roa_w {
    use super::*;
    use crate::verif_support::{assume, reach};
    use crate::repository::cert::verif_roa_w_rc::{make, Ext};
    use crate::repository::resources::{AsBlocks, IpBlock, IpBlocks, Addr};
    use std::net::{Ipv4Addr, Ipv6Addr};

    /// closed interval of the prefix addr/len in a `width`-bit family, as integers
    fn pfx(addr: u128, len: u8, width: u8) -> (u128, u128) {
        let full: u128 = if width == 32 { u32::MAX as u128 } else { u128::MAX };
        let host: u128 = if len >= width { 0 } else if len == 0 { full } else { full >> len };
        let lo = addr & full & !host;
        (lo, lo | host)
    }
    /// blocks of the family as Addr values (IPv4 occupies the upper 32 bits of an Addr)
    fn blocks(iv: &[(u128, u128)], width: u8) -> IpBlocks {
        let sh = if width == 32 { 96 } else { 0 };
        IpBlocks::from_iter(iv.iter().map(|(lo, hi)| IpBlock::from((Addr::from_bits(lo << sh), Addr::from_bits((hi << sh) | ((1u128 << sh) - 1))))))
    }
    /// DER tag-length-value with a definite length of any size
    fn tlv(tag: u8, content: &[u8]) -> Vec<u8> {
        let mut v = vec![tag];
        let n = content.len();
        if n < 128 { v.push(n as u8) } else if n < 256 { v.extend([0x81, n as u8]) } else { v.extend([0x82, (n >> 8) as u8, n as u8]) }
        v.extend_from_slice(content);
        v
    }
    /// ROAIPAddress ::= SEQUENCE { address BIT STRING } for the prefix bytes/len
    fn roa_addr(bytes: &[u8], len: u8) -> Vec<u8> {
        let nb = (len as usize + 7) / 8;
        let mut c = vec![((8 - len % 8) % 8) as u8];
        c.extend_from_slice(&bytes[..nb]);
        tlv(0x30, &tlv(0x03, &c))
    }
    fn norm(mut v: Vec<(u128, u128)>) -> Vec<(u128, u128)> {
        v.sort();
        let mut out: Vec<(u128, u128)> = Vec::new();
        for (lo, hi) in v {
            match out.last_mut() {
                Some(last) if last.1 == u128::MAX || lo <= last.1 + 1 => { if hi > last.1 { last.1 = hi } }
                _ => out.push((lo, hi)),
            }
        }
        out
    }

    //@harness roa_w_verify W fn=RouteOriginAttestation::verify,IpBlocks::contains_roa,RoaIpAddress::range n=20000 timeout=600
    verif_search!{ roa_w_verify; |r: u64, a0: u32, a1: u32, a2: u32, a3: u32, b0: u128, b1: u128, b2: u128, la: [u8; 4], lb: [u8; 3], h40: u32, h41: u32, h42: u32, h43: u32, h60: u128, h61: u128| {
        let (a, b, h4, h6) = ([a0, a1, a2, a3], [b0, b1, b2], [h40, h41, h42, h43], [h60, h61]);
        // the certificate holds up to two v4 and up to one v6 prefix-shaped or arbitrary blocks; the ROA lists up to
        // four v4 and three v6 prefixes, biased to be equal to / inside / just around the held blocks
        let mut g = r;
        let mut pick = |n: u64| { g = g.wrapping_mul(6364136223846793005).wrapping_add(1442695040888963407); (g >> 33) % n };
        let held4: Vec<(u128, u128)> = norm((0..pick(3) as usize).map(|i| pfx(h4[i] as u128, 8 + (h4[i + 2] % 17) as u8, 32)).collect());
        let held6: Vec<(u128, u128)> = norm((0..pick(2) as usize).map(|i| pfx(h6[i], 16 + (h6[i] % 33) as u8, 128)).collect());
        let (mut der4, mut der6): (Vec<u8>, Vec<u8>) = (Vec::new(), Vec::new());
        let mut all_in = true;
        let n4 = pick(5) as usize;
        for i in 0..n4.min(4) {
            // inside a held block, equal to it, covering it, or anywhere
            let (addr, len) = match (pick(5), held4.first()) {
                (0, Some(hb)) | (1, Some(hb)) => ((hb.0 | (a[i] as u128 & (hb.1 - hb.0))), 24 + la[i] % 9),
                (2, Some(hb)) => (hb.0, la[i] % 25),
                _ => (a[i] as u128, la[i] % 33),
            };
            let (lo, hi) = pfx(addr, len, 32);
            der4.extend(roa_addr(&(lo as u32).to_be_bytes(), len));
            all_in &= held4.iter().any(|hb| hb.0 <= lo && hi <= hb.1);
        }
        let n6 = pick(4) as usize;
        for i in 0..n6.min(3) {
            let (addr, len) = match (pick(5), held6.first()) {
                (0, Some(hb)) | (1, Some(hb)) => ((hb.0 | (b[i] & (hb.1 - hb.0))), 48 + lb[i] % 81),
                (2, Some(hb)) => (hb.0, lb[i] % 49),
                _ => (b[i], lb[i] % 129),
            };
            let (lo, hi) = pfx(addr, len, 128);
            der6.extend(roa_addr(&lo.to_be_bytes(), len));
            all_in &= held6.iter().any(|hb| hb.0 <= lo && hi <= hb.1);
        }
        let rc = make(blocks(&held4, 32), blocks(&held6, 128), AsBlocks::empty(), (Ext::Blocks, Ext::Blocks), Ext::Missing);
        // the attestation as an independent RFC 6482 encoder writes it (the crate's own builder lays the captured
        // addresses out differently from the decoder - the built-ROA iterator issue of C05, outside this unit)
        let mut fams = Vec::new();
        if n4.min(4) > 0 { let mut f = tlv(0x04, &[0, 1]); f.extend(tlv(0x30, &der4)); fams.extend(tlv(0x30, &f)); }
        if n6.min(3) > 0 { let mut f = tlv(0x04, &[0, 2]); f.extend(tlv(0x30, &der6)); fams.extend(tlv(0x30, &f)); }
        let mut body = tlv(0x02, &[0x00, 0xFB, 0xF4]);          // asID 64500
        body.extend(tlv(0x30, &fams));
        let der = tlv(0x30, &body);
        let mut att = match Mode::Der.decode(&der[..], RouteOriginAttestation::take_from) { Ok(a) => a, Err(_) => panic!("a well-formed RFC 6482 eContent decodes") };
        assert!(att.verify(&rc).is_ok() == all_in, "a ROA is accepted exactly when every prefix lies inside the validated resources of its family");
    }}
}
//@end

//@append src/repository/aspa.rs
#[cfg(any(kani, verif_replay))]
#[allow(dead_code, unused)]
mod verif_aspa_w {
    use super::*;
    use crate::verif_support::{assume, reach};
    use crate::repository::cert::verif_roa_w_rc::{make, Ext};
    use crate::repository::resources::{AsBlock, AsBlocks, IpBlock, IpBlocks, Addr};

    //@harness aspa_w_verify W fn=AsProviderAttestation::verify n=20000 timeout=600
    verif_search!{ aspa_w_verify; |r: u64, customer: u32, lo: u32, span: u16, p0: u32| {
        let mut g = r;
        let mut pick = |n: u64| { g = g.wrapping_mul(6364136223846793005).wrapping_add(1442695040888963407); (g >> 33) % n };
        // validated AS resources: one range, around the customer or elsewhere
        let (rlo, rhi) = match pick(4) {
            0 => (customer, customer),
            1 => (customer.saturating_sub(span as u32), customer.saturating_add(span as u32 / 2)),
            2 => (customer.saturating_add(1), customer.saturating_add(1).saturating_add(span as u32)),
            _ => (lo, lo.saturating_add(span as u32)),
        };
        let asb = AsBlocks::from_iter(std::iter::once(AsBlock::from((Asn::from_u32(rlo), Asn::from_u32(rhi)))));
        let ext = |k: u64| match k { 0 => Ext::Missing, 1 => Ext::Inherit, _ => Ext::Blocks };
        // the certificate's own extensions: mostly the shape an ASPA EE certificate must have, sometimes not
        let as_ext = if pick(4) == 0 { Ext::Inherit } else { Ext::Blocks };
        let ip_ext = if pick(3) == 0 { (ext(pick(3)), ext(pick(3))) } else { (Ext::Missing, Ext::Missing) };
        // (IpResources::blocks(empty) is the missing variant: a present extension needs a block)
        let some4 = IpBlocks::from_iter(std::iter::once(IpBlock::from((Addr::from_bits(10u128 << 120), Addr::from_bits((10u128 << 120) | ((1u128 << 120) - 1))))));
        let some6 = IpBlocks::from_iter(std::iter::once(IpBlock::from((Addr::from_bits(0x2001u128 << 112), Addr::from_bits((0x2001u128 << 112) | ((1u128 << 112) - 1))))));
        let rc = make(if ip_ext.0 == Ext::Blocks { some4 } else { IpBlocks::empty() }, if ip_ext.1 == Ext::Blocks { some6 } else { IpBlocks::empty() }, asb, ip_ext, as_ext);
        let mut builder = AspaBuilder::empty(Asn::from_u32(customer));
        if p0 != customer { let _ = builder.add_provider(Asn::from_u32(p0)); }
        let mut att = builder.into_attestation();
        let want = rlo <= customer && customer <= rhi && as_ext == Ext::Blocks && ip_ext == (Ext::Missing, Ext::Missing);
        assert!(att.verify(&rc).is_ok() == want, "an ASPA is accepted exactly when the customer AS lies inside the validated AS resources, the certificate has no IP resources and inherits nothing");
    }}
}
//@end
