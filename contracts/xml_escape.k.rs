// Unit xml_escape (C09), Kani side, BOUNDED (kind Kb: texts of at most 6 octets, every octet value):
// TextEscape::write_escaped of src/xml/encode.rs emits no raw `<`, `&` (attribute mode also `"`, `'`,
// `>`) and un-escaping the five standard entities gives the input back.  Supporting evidence only.
//@features ca,rtr,slurm

//@append src/xml/encode.rs
#[cfg(any(kani, verif_replay))]
#[allow(dead_code, unused)]
mod verif_xml_escape {
    use super::*;
    use crate::verif_support::{assume, reach};

    /// Independent streaming un-escaper used as the `io::Write` target: every octet written is
    /// decoded left to right (the five predefined entities of XML 1.0 section 4.6; a `&` that does not
    /// start one of them, or any other character that must be escaped in this context, appearing raw is
    /// an error) and the decoded characters are compared with the expected text `inp[..n]`.
    /// No output array with symbolic positions is kept (that made CBMC run out of memory).
    pub struct Unesc {
        pub attr: bool, pub inp: [u8; 6], pub n: usize,
        /// number of characters decoded so far (all equal to inp[..i])
        pub i: usize,
        /// octets since an unfinished `&` (big-endian packed) and their number (0 = not inside an entity)
        pub acc: u64, pub pl: usize,
        /// a raw special character, an unknown entity, or a character different from the input was seen
        pub bad: bool,
        /// number of octets written
        pub total: usize,
    }
    const fn pack(s: &[u8]) -> u64 {
        let mut a = 0u64; let mut k = 0;
        while k < s.len() { a = (a << 8) | s[k] as u64; k += 1; }
        a
    }
    const LT: u64 = pack(b"&lt;"); const GT: u64 = pack(b"&gt;"); const AMP: u64 = pack(b"&amp;");
    const QUOT: u64 = pack(b"&quot;"); const APOS: u64 = pack(b"&apos;");
    impl Unesc {
        fn emit(&mut self, c: u8) {
            if self.i < self.n && self.inp[self.i] == c { self.i += 1 } else { self.bad = true }
        }
        fn octet(&mut self, c: u8) {
            self.total = self.total.wrapping_add(1);
            if self.pl == 0 {
                if c == b'&' { self.acc = c as u64; self.pl = 1; }
                else if must_escape(self.attr, c) { self.bad = true }
                else { self.emit(c) }
            } else {
                self.acc = (self.acc << 8) | c as u64;
                self.pl += 1;
                if c == b';' {
                    if self.acc == LT { self.emit(b'<') }
                    else if self.acc == GT { self.emit(b'>') }
                    else if self.acc == AMP { self.emit(b'&') }
                    else if self.acc == QUOT { self.emit(b'"') }
                    else if self.acc == APOS { self.emit(b'\'') }
                    else { self.bad = true }
                    self.pl = 0;
                } else if self.pl >= 6 { self.bad = true; self.pl = 0; }
            }
        }
    }
    impl io::Write for Unesc {
        fn write(&mut self, d: &[u8]) -> io::Result<usize> {
            // every write of write_escaped is a piece of the input or one entity: at most 6 octets
            // (unrolled, so that the sink adds no loop to unwind; a longer write is flagged)
            if d.len() > 6 { self.bad = true }
            if 0 < d.len() { self.octet(d[0]) }
            if 1 < d.len() { self.octet(d[1]) }
            if 2 < d.len() { self.octet(d[2]) }
            if 3 < d.len() { self.octet(d[3]) }
            if 4 < d.len() { self.octet(d[4]) }
            if 5 < d.len() { self.octet(d[5]) }
            Ok(d.len())
        }
        /// the sink takes everything at once (std's default write_all loop costs CBMC an unwinding per call)
        fn write_all(&mut self, d: &[u8]) -> io::Result<()> { self.write(d).map(|_| ()) }
        fn flush(&mut self) -> io::Result<()> { Ok(()) }
    }

    /// XML 1.0 section 2.4 / 4.6: the characters that must not appear raw, per context
    fn must_escape(attr: bool, c: u8) -> bool {
        c == b'<' || c == b'&' || (attr && (c == b'"' || c == b'\'' || c == b'>'))
    }
    /// the five predefined entities (XML 1.0 section 4.6): if `o[p..]` starts with one, its
    /// character and its length
    fn entity_at(o: &[u8; 40], p: usize, n: usize) -> Option<(u8, usize)> {
        if p + 4 <= n && o[p] == b'&' && o[p + 1] == b'l' && o[p + 2] == b't' && o[p + 3] == b';' { return Some((b'<', 4)) }
        if p + 4 <= n && o[p] == b'&' && o[p + 1] == b'g' && o[p + 2] == b't' && o[p + 3] == b';' { return Some((b'>', 4)) }
        if p + 5 <= n && o[p] == b'&' && o[p + 1] == b'a' && o[p + 2] == b'm' && o[p + 3] == b'p' && o[p + 4] == b';' { return Some((b'&', 5)) }
        if p + 6 <= n && o[p] == b'&' && o[p + 1] == b'q' && o[p + 2] == b'u' && o[p + 3] == b'o' && o[p + 4] == b't' && o[p + 5] == b';' { return Some((b'"', 6)) }
        if p + 6 <= n && o[p] == b'&' && o[p + 1] == b'a' && o[p + 2] == b'p' && o[p + 3] == b'o' && o[p + 4] == b's' && o[p + 5] == b';' { return Some((b'\'', 6)) }
        None
    }
    //@harness xml_replace_char K fn=TextEscape::replace_char
    verif_harness!{ xml_replace_char; |attr: bool, c: u8| {
        let mode = if attr { TextEscape::Attr } else { TextEscape::Pcdata };
        let r = mode.replace_char(c);
        assert!(r.is_some() == must_escape(attr, c), "a replacement exactly for the characters that must be escaped");
        if let Some(s) = r {
            let b = s.as_bytes();
            let mut o = [0u8; 40];
            assume(b.len() <= 6);
            o[..b.len()].copy_from_slice(b);
            assert!(entity_at(&o, 0, b.len()) == Some((c, b.len())), "the replacement is the standard entity of the character");
        }
    }}

    //@harness xml_escape_kb_n6 Kb fn=TextEscape::write_escaped timeout=3000 thorough bound="texts of at most 6 octets, every octet value, both modes"
    verif_harness!{ #[kani::unwind(8)] xml_escape_kb_n6; |attr: bool, b: [u8; 6], len: usize| {
        assume(len <= 6);
        let mode = if attr { TextEscape::Attr } else { TextEscape::Pcdata };
        let mut sink = Unesc { attr, inp: b, n: len, i: 0, acc: 0, pl: 0, bad: false, total: 0 };
        let r = mode.write_escaped(&b[..len], &mut sink);
        assert!(r.is_ok(), "writing to a sink that never fails succeeds");
        assert!(!sink.bad, "no raw special character, only the five entities, decoded characters equal the input");
        assert!(sink.pl == 0, "no unfinished entity at the end");
        assert!(sink.i == len, "un-escaping gives the whole input back");
        assert!(sink.total <= 36, "at most 6 octets per input octet");
    }}
    //@harness xml_escape_kb_n4 Kb fn=TextEscape::write_escaped bound="texts of at most 4 octets, every octet value, both modes"
    verif_harness!{ #[kani::unwind(6)] xml_escape_kb_n4; |attr: bool, b: [u8; 6], len: usize| {
        assume(len <= 4);
        let mode = if attr { TextEscape::Attr } else { TextEscape::Pcdata };
        let mut sink = Unesc { attr, inp: b, n: len, i: 0, acc: 0, pl: 0, bad: false, total: 0 };
        let r = mode.write_escaped(&b[..len], &mut sink);
        assert!(r.is_ok(), "writing to a sink that never fails succeeds");
        assert!(!sink.bad, "no raw special character, only the five entities, decoded characters equal the input");
        assert!(sink.pl == 0, "no unfinished entity at the end");
        assert!(sink.i == len, "un-escaping gives the whole input back");
        assert!(sink.total <= 24, "at most 6 octets per input octet");
    }}
}
//@end
