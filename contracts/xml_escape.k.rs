// Unit xml_escape (C09), Kani side, BOUNDED (kind Kb: texts of at most 6 octets, every octet value):
// TextEscape::write_escaped of src/xml/encode.rs emits no raw `<`, `&` (attribute mode also `"`, `'`,
// `>`) and un-escaping the five standard entities gives the input back.  Supporting evidence only.
// Harnesses: xml_replace_char (K, complete: every octet, both modes), xml_escape_kb_n4 (Kb, quick tier,
// about 3 min), xml_escape_kb_n6 (Kb, thorough tier only: about 10 min and several GB of CBMC memory).
//@features ca,rtr,slurm

//@append src/xml/encode.rs
#[cfg(any(kani, verif_replay))]
#[allow(dead_code, unused)]
mod verif_xml_escape {
    use super::*;
    use crate::verif_support::{assume, reach};

    /// Independent un-escaper used as the `io::Write` target.  It decodes what is written, left to
    /// right, and compares the decoded characters with the expected text `inp[..n]`.  To keep CBMC's
    /// formula small it looks at one `write` at a time and accepts exactly two shapes (anything else
    /// sets `bad`, so it can only reject too much, never accept a wrong output):
    ///   * the write is exactly one of the five predefined entities (XML 1.0 section 4.6) -> that character;
    ///   * the write is a run of at most 6 octets none of which must be escaped in this context
    ///     (so in particular no `&`) -> these characters.
    /// No output array with symbolic positions is kept (that made CBMC run out of memory).
    pub struct Unesc {
        pub attr: bool, pub inp: [u8; 6], pub n: usize,
        /// number of characters decoded so far (all equal to inp[..i])
        pub i: usize,
        /// a raw special character, a split or unknown entity, an over-long write, or a decoded
        /// character different from the input was seen
        pub bad: bool,
        /// number of octets written
        pub total: usize,
    }
    const fn pack(s: &[u8]) -> u64 {
        let mut a = 0u64; let mut k = 0;
        while k < s.len() { a = (a << 8) | s[k] as u64; k += 1; }
        a
    }
    const LT: u64 = pack(b"&lt;"); const GT: u64 = pack(b"&gt;"); const AMP: u64 = pack(b"&amp;");
    const QUOT: u64 = pack(b"&quot;"); const APOS: u64 = pack(b"&apos;");
    impl Unesc {
        fn emit(&mut self, c: u8) {
            if self.i < self.n && self.inp[self.i] == c { self.i += 1 } else { self.bad = true }
        }
        fn plain(&mut self, c: u8) {
            if must_escape(self.attr, c) { self.bad = true } else { self.emit(c) }
        }
    }
    impl io::Write for Unesc {
        fn write(&mut self, d: &[u8]) -> io::Result<usize> {
            let l = d.len();
            self.total = self.total.wrapping_add(l);
            if l > 6 { self.bad = true; return Ok(l) }
            if l > 0 && d[0] == b'&' {
                // big-endian packing of the (at most 6) octets, compared with the packed entities
                let mut w = 0u64;
                if 0 < l { w = (w << 8) | d[0] as u64 }
                if 1 < l { w = (w << 8) | d[1] as u64 }
                if 2 < l { w = (w << 8) | d[2] as u64 }
                if 3 < l { w = (w << 8) | d[3] as u64 }
                if 4 < l { w = (w << 8) | d[4] as u64 }
                if 5 < l { w = (w << 8) | d[5] as u64 }
                if l == 4 && w == LT { self.emit(b'<') }
                else if l == 4 && w == GT { self.emit(b'>') }
                else if l == 5 && w == AMP { self.emit(b'&') }
                else if l == 6 && w == QUOT { self.emit(b'"') }
                else if l == 6 && w == APOS { self.emit(b'\'') }
                else { self.bad = true }
            } else {
                if 0 < l { self.plain(d[0]) }
                if 1 < l { self.plain(d[1]) }
                if 2 < l { self.plain(d[2]) }
                if 3 < l { self.plain(d[3]) }
                if 4 < l { self.plain(d[4]) }
                if 5 < l { self.plain(d[5]) }
            }
            Ok(l)
        }
        /// the sink takes everything at once (std's default write_all loop costs CBMC an unwinding per call)
        fn write_all(&mut self, d: &[u8]) -> io::Result<()> { self.write(d).map(|_| ()) }
        fn flush(&mut self) -> io::Result<()> { Ok(()) }
    }

    /// XML 1.0 section 2.4 / 4.6: the characters that must not appear raw, per context
    fn must_escape(attr: bool, c: u8) -> bool {
        c == b'<' || c == b'&' || (attr && (c == b'"' || c == b'\'' || c == b'>'))
    }
    /// the five predefined entities (XML 1.0 section 4.6): if `o[p..]` starts with one, its
    /// character and its length
    fn entity_at(o: &[u8; 40], p: usize, n: usize) -> Option<(u8, usize)> {
        if p + 4 <= n && o[p] == b'&' && o[p + 1] == b'l' && o[p + 2] == b't' && o[p + 3] == b';' { return Some((b'<', 4)) }
        if p + 4 <= n && o[p] == b'&' && o[p + 1] == b'g' && o[p + 2] == b't' && o[p + 3] == b';' { return Some((b'>', 4)) }
        if p + 5 <= n && o[p] == b'&' && o[p + 1] == b'a' && o[p + 2] == b'm' && o[p + 3] == b'p' && o[p + 4] == b';' { return Some((b'&', 5)) }
        if p + 6 <= n && o[p] == b'&' && o[p + 1] == b'q' && o[p + 2] == b'u' && o[p + 3] == b'o' && o[p + 4] == b't' && o[p + 5] == b';' { return Some((b'"', 6)) }
        if p + 6 <= n && o[p] == b'&' && o[p + 1] == b'a' && o[p + 2] == b'p' && o[p + 3] == b'o' && o[p + 4] == b's' && o[p + 5] == b';' { return Some((b'\'', 6)) }
        None
    }
    //@harness xml_replace_char K fn=TextEscape::replace_char
    verif_harness!{ xml_replace_char; |attr: bool, c: u8| {
        let mode = if attr { TextEscape::Attr } else { TextEscape::Pcdata };
        let r = mode.replace_char(c);
        assert!(r.is_some() == must_escape(attr, c), "a replacement exactly for the characters that must be escaped");
        if let Some(s) = r {
            let b = s.as_bytes();
            let mut o = [0u8; 40];
            assert!(b.len() <= 6, "an entity has at most 6 octets");
            if b.len() > 6 { return }
            o[..b.len()].copy_from_slice(b);
            assert!(entity_at(&o, 0, b.len()) == Some((c, b.len())), "the replacement is the standard entity of the character");
        }
    }}

    //@harness xml_escape_kb_n6 Kb fn=TextEscape::write_escaped timeout=3000 thorough bound="texts of at most 6 octets, every octet value, both modes"
    verif_harness!{ #[kani::unwind(8)] xml_escape_kb_n6; |attr: bool, b: [u8; 6], len: usize| {
        assume(len <= 6);
        let mode = if attr { TextEscape::Attr } else { TextEscape::Pcdata };
        let mut sink = Unesc { attr, inp: b, n: len, i: 0, bad: false, total: 0 };
        let r = mode.write_escaped(&b[..len], &mut sink);
        assert!(r.is_ok(), "writing to a sink that never fails succeeds");
        assert!(!sink.bad, "no raw special character, only the five entities, decoded characters equal the input");
        assert!(sink.i == len, "un-escaping gives the whole input back");
        assert!(sink.total <= 36, "at most 6 octets per input octet");
    }}
    //@harness xml_escape_kb_n2 Kb fn=TextEscape::write_escaped bound="texts of at most 2 octets, every octet value, both modes"
    verif_harness!{ #[kani::unwind(4)] xml_escape_kb_n2; |attr: bool, b: [u8; 6], len: usize| {
        assume(len <= 2);
        let mode = if attr { TextEscape::Attr } else { TextEscape::Pcdata };
        let mut sink = Unesc { attr, inp: b, n: len, i: 0, bad: false, total: 0 };
        let r = mode.write_escaped(&b[..len], &mut sink);
        assert!(r.is_ok(), "writing to a sink that never fails succeeds");
        assert!(!sink.bad, "no raw special character, only the five entities, decoded characters equal the input");
        assert!(sink.i == len, "un-escaping gives the whole input back");
        assert!(sink.total <= 12, "at most 6 octets per input octet");
    }}
    //@harness xml_escape_kb_n4 Kb fn=TextEscape::write_escaped timeout=2400 thorough bound="texts of at most 4 octets, every octet value, both modes"
    verif_harness!{ #[kani::unwind(6)] xml_escape_kb_n4; |attr: bool, b: [u8; 6], len: usize| {
        assume(len <= 4);
        let mode = if attr { TextEscape::Attr } else { TextEscape::Pcdata };
        let mut sink = Unesc { attr, inp: b, n: len, i: 0, bad: false, total: 0 };
        let r = mode.write_escaped(&b[..len], &mut sink);
        assert!(r.is_ok(), "writing to a sink that never fails succeeds");
        assert!(!sink.bad, "no raw special character, only the five entities, decoded characters equal the input");
        assert!(sink.i == len, "un-escaping gives the whole input back");
        assert!(sink.total <= 24, "at most 6 octets per input octet");
    }}
}
//@end
