// Unit xml_escape (C09), Kani side, BOUNDED (kind Kb: texts of at most 6 octets, every octet value):
// TextEscape::write_escaped of src/xml/encode.rs emits no raw `<`, `&` (attribute mode also `"`, `'`,
// `>`) and un-escaping the five standard entities gives the input back.  Supporting evidence only.
//@features ca,rtr,slurm

//@append src/xml/encode.rs
#[cfg(any(kani, verif_replay))]
#[allow(dead_code, unused)]
mod verif_xml_escape {
    use super::*;
    use crate::verif_support::{assume, reach};

    /// fixed-size sink (6 input octets * 6 octets for the longest entity = 36); it never fails:
    /// running out of room is recorded in `overflow` (asserted false by the harness)
    pub struct Sink { pub buf: [u8; 40], pub len: usize, pub overflow: bool }
    impl io::Write for Sink {
        fn write(&mut self, d: &[u8]) -> io::Result<usize> {
            if d.len() > self.buf.len() - self.len {
                self.overflow = true;
            } else {
                // every write of write_escaped is a piece of the input or one entity: at most 6 octets
                // (a constant-bound copy is much cheaper for CBMC than a memcpy of symbolic length)
                if d.len() > 6 { self.overflow = true; }
                let mut j = 0;
                while j < 6 {
                    if j < d.len() { self.buf[self.len + j] = d[j]; }
                    j += 1;
                }
                self.len += d.len();
            }
            Ok(d.len())
        }
        /// the sink takes everything at once (std's default write_all loop costs CBMC an unwinding per call)
        fn write_all(&mut self, d: &[u8]) -> io::Result<()> { self.write(d).map(|_| ()) }
        fn flush(&mut self) -> io::Result<()> { Ok(()) }
    }

    /// XML 1.0 section 2.4 / 4.6: the characters that must not appear raw, per context
    fn must_escape(attr: bool, c: u8) -> bool {
        c == b'<' || c == b'&' || (attr && (c == b'"' || c == b'\'' || c == b'>'))
    }
    /// the five predefined entities (XML 1.0 section 4.6): if `o[p..]` starts with one, its
    /// character and its length
    fn entity_at(o: &[u8; 40], p: usize, n: usize) -> Option<(u8, usize)> {
        if p + 4 <= n && o[p] == b'&' && o[p + 1] == b'l' && o[p + 2] == b't' && o[p + 3] == b';' { return Some((b'<', 4)) }
        if p + 4 <= n && o[p] == b'&' && o[p + 1] == b'g' && o[p + 2] == b't' && o[p + 3] == b';' { return Some((b'>', 4)) }
        if p + 5 <= n && o[p] == b'&' && o[p + 1] == b'a' && o[p + 2] == b'm' && o[p + 3] == b'p' && o[p + 4] == b';' { return Some((b'&', 5)) }
        if p + 6 <= n && o[p] == b'&' && o[p + 1] == b'q' && o[p + 2] == b'u' && o[p + 3] == b'o' && o[p + 4] == b't' && o[p + 5] == b';' { return Some((b'"', 6)) }
        if p + 6 <= n && o[p] == b'&' && o[p + 1] == b'a' && o[p + 2] == b'p' && o[p + 3] == b'o' && o[p + 4] == b's' && o[p + 5] == b';' { return Some((b'\'', 6)) }
        None
    }
    //@harness xml_replace_char K fn=TextEscape::replace_char
    verif_harness!{ xml_replace_char; |attr: bool, c: u8| {
        let mode = if attr { TextEscape::Attr } else { TextEscape::Pcdata };
        let r = mode.replace_char(c);
        assert!(r.is_some() == must_escape(attr, c), "a replacement exactly for the characters that must be escaped");
        if let Some(s) = r {
            let b = s.as_bytes();
            let mut o = [0u8; 40];
            assume(b.len() <= 6);
            o[..b.len()].copy_from_slice(b);
            assert!(entity_at(&o, 0, b.len()) == Some((c, b.len())), "the replacement is the standard entity of the character");
        }
    }}

    //@harness xml_escape_kb_n6 Kb fn=TextEscape::write_escaped bound="texts of at most 6 octets, every octet value, both modes"
    verif_harness!{ #[kani::unwind(9)] xml_escape_kb_n6; |attr: bool, b: [u8; 6], len: usize| {
        assume(len <= 6);
        let mode = if attr { TextEscape::Attr } else { TextEscape::Pcdata };
        let mut sink = Sink { buf: [0u8; 40], len: 0, overflow: false };
        let r = mode.write_escaped(&b[..len], &mut sink);
        assert!(r.is_ok(), "writing to a sink that never fails succeeds");
        assert!(!sink.overflow, "the output fits into 40 octets");
        let n = sink.len;
        assert!(n <= 36, "at most 6 octets per input octet");
        // un-escape the output left to right (one decoded character per step; a `&` that does not
        // start one of the five entities counts as a raw `&`) and compare with the input
        let mut k = 0;
        let mut p = 0;
        let mut i = 0;
        while i < 6 {
            if i < len {
                assert!(p < n, "output covers every input octet");
                match entity_at(&sink.buf, p, n) {
                    Some((c, l)) => { assert!(c == b[i], "entity decodes to the input octet"); p += l; }
                    None => {
                        assert!(!must_escape(attr, sink.buf[p]), "no raw special character in the output");
                        assert!(sink.buf[p] == b[i], "plain octet copied");
                        p += 1;
                    }
                }
            }
            i += 1;
        }
        assert!(p == n, "nothing after the last input octet");
    }}
    //@harness xml_escape_kb_n3 Kb fn=TextEscape::write_escaped timeout=300 bound="texts of at most 3 octets, every octet value, both modes"
    verif_harness!{ #[kani::unwind(8)] xml_escape_kb_n3; |attr: bool, b: [u8; 6], len: usize| {
        assume(len <= 3);
        let mode = if attr { TextEscape::Attr } else { TextEscape::Pcdata };
        let mut sink = Sink { buf: [0u8; 40], len: 0, overflow: false };
        let r = mode.write_escaped(&b[..len], &mut sink);
        assert!(r.is_ok(), "writing to a sink that never fails succeeds");
        assert!(!sink.overflow, "the output fits into 40 octets");
        let n = sink.len;
        assert!(n <= 36, "at most 6 octets per input octet");
        // un-escape the output left to right (one decoded character per step; a `&` that does not
        // start one of the five entities counts as a raw `&`) and compare with the input
        let mut k = 0;
        let mut p = 0;
        let mut i = 0;
        while i < 3 {
            if i < len {
                assert!(p < n, "output covers every input octet");
                match entity_at(&sink.buf, p, n) {
                    Some((c, l)) => { assert!(c == b[i], "entity decodes to the input octet"); p += l; }
                    None => {
                        assert!(!must_escape(attr, sink.buf[p]), "no raw special character in the output");
                        assert!(sink.buf[p] == b[i], "plain octet copied");
                        p += 1;
                    }
                }
            }
            i += 1;
        }
        assert!(p == n, "nothing after the last input octet");
    }}
}
//@end
