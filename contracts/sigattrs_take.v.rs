// Unit sigattrs_take (C02, C10): "exactly one each of content-type, message-digest, signing-time" while the
// signed attributes are decoded (SignedAttrs::take_from_with_mode, src/repository/sigobj.rs).
//   * take_content_type / take_message_digest / take_signing_time are ordinary functions: under contract as they are
//     (a second occurrence is an error and leaves the slot alone; a first occurrence fills the slot).
//   * the per-attribute dispatch is the closure handed to `cons.take_opt_sequence(|cons| { .. })` inside the capture
//     loop; Verus cannot specify closures with `&mut` parameters or mutable captures, so its block is LIFTED (R13):
//     the text, byte-identical except that `&mut <captured slot>` becomes the `&mut` parameter of that name, is the
//     body of `take_attr`.  Verified: one step fills exactly the slot its OID names and touches no other; a known
//     attribute seen twice is an error; an unknown attribute is an error in strict mode (RPKI signed objects) and
//     is skipped, with all three slots untouched, otherwise (RFC 6492/8181 messages: additional signed attributes
//     are tolerated and stay inside the captured - i.e. signed - octets).
//   * lemma_exactly_one (spec level): along any sequence of successful steps every slot is filled at most once and
//     is filled at the end iff its attribute occurred exactly once.
// NOT verified (stays under not_decided): the tail of take_from_with_mode that turns an empty slot into a
// "missing ..." error and the 0xFFFF bound (the function body holds closures with mutable captures), and bcder.
use vstd::prelude::*;
use vstd::std_specs::cmp::*;

// cross-type comparison `Oid<Bytes> == ConstOid` of bcder: declared outside verus!, specified by axioms below
impl PartialEq<ConstOid> for Oid { fn eq(&self, _other: &ConstOid) -> bool { unimplemented!() } }

verus! {

// ---- environment: bcder stand-ins ---------------------------------------------------------------
#[verifier::external_body]
pub struct Oid { _o: u8 }
/// stand-in for bcder::ConstOid: the last arc of the PKCS#9 attribute OIDs 1.2.840.113549.1.9.<n> (3 content-type,
/// 4 message-digest, 5 signing-time; src/repository/oid.rs) - all that matters is that the three differ
pub struct ConstOid(pub u8);
#[verifier::external_body]
pub struct OctetString { _o: u8 }
#[verifier::external_body]
pub struct Time { _o: u8 }
#[verifier::external_body]
pub struct DecodeError { _o: u8 }
#[verifier::external_body]
pub struct Constructed { _o: u8 }

/// the OID value denoted by an Oid<Bytes> / a ConstOid (arc sequence as octets)
pub mod ov {
    use super::*;
    pub uninterp spec fn oid_val(o: Oid) -> Seq<u8>;
    pub open spec fn const_val(o: ConstOid) -> Seq<u8> { seq![o.0] }
}
pub use ov::*;
pub mod ax {
    use super::*;
    /// bcder: `impl<T: AsRef<[u8]>, U: AsRef<[u8]>> PartialEq<Oid<U>> for Oid<T>` compares the octets
    #[verifier::external_body]
    pub broadcast proof fn axiom_oid_eq_obeys()
        ensures #[trigger] <Oid as PartialEqSpec<ConstOid>>::obeys_eq_spec() {}
    #[verifier::external_body]
    pub broadcast proof fn axiom_oid_eq(a: Oid, b: ConstOid)
        ensures #[trigger] <Oid as PartialEqSpec<ConstOid>>::eq_spec(&a, &b) == (oid_val(a) == const_val(b)) {}
}
broadcast use {ax::axiom_oid_eq_obeys, ax::axiom_oid_eq};

pub mod oid {
    use super::*;
    pub const CONTENT_TYPE: ConstOid = ConstOid(3);
    pub const MESSAGE_DIGEST: ConstOid = ConstOid(4);
    pub const SIGNING_TIME: ConstOid = ConstOid(5);
}

impl Oid {
    #[verifier::external_body]
    pub fn take_from(cons: &mut Constructed) -> (r: Result<Oid, DecodeError>) { unimplemented!() }
}
impl OctetString {
    #[verifier::external_body]
    pub fn take_from(cons: &mut Constructed) -> (r: Result<OctetString, DecodeError>) { unimplemented!() }
}
impl Time {
    #[verifier::external_body]
    pub fn take_from(cons: &mut Constructed) -> (r: Result<Time, DecodeError>) { unimplemented!() }
}
impl Constructed {
    #[verifier::external_body]
    pub fn content_err<T>(&self, err: T) -> (r: DecodeError) { unimplemented!() }
    /// bcder: runs `op` on the content of the next SET and returns its result (no contract on the value)
    #[verifier::external_body]
    pub fn take_set<T, F: FnOnce(&mut Constructed) -> Result<T, DecodeError>>(&mut self, op: F) -> (r: Result<T, DecodeError>) { unimplemented!() }
    #[verifier::external_body]
    pub fn skip_all(&mut self) -> (r: Result<(), DecodeError>) { unimplemented!() }
}
pub struct InvalidSignedAttr { pub oid: Oid }
impl InvalidSignedAttr {
    //@fn src/repository/sigobj.rs :: impl InvalidSignedAttr :: new
    //@sigsub R12 "Oid<Bytes>" "Oid"
    //@end
}

pub struct SignedAttrs;

/// what one attribute does to a slot
pub open spec fn filled<T>(before: Option<T>, after: Option<T>) -> bool { before.is_none() && after.is_some() }

impl SignedAttrs {
    //@fn src/repository/sigobj.rs :: impl SignedAttrs :: take_content_type
    //@sigsub R12 "<S: decode::Source>" ""
    //@sigsub R12 "decode::Constructed<S>" "Constructed"
    //@sigsub R12 "Option<Oid<Bytes>>" "Option<Oid>"
    //@sigsub R12 "DecodeError<S::Error>" "DecodeError"
    //@spec
        ensures
            old(content_type).is_some() ==> r.is_err() && *final(content_type) == *old(content_type),
            old(content_type).is_none() ==> (r.is_ok() <==> final(content_type).is_some()),
    //@/spec
    //@end

    //@fn src/repository/sigobj.rs :: impl SignedAttrs :: take_message_digest
    //@sigsub R12 "<S: decode::Source>" ""
    //@sigsub R12 "decode::Constructed<S>" "Constructed"
    //@sigsub R12 "DecodeError<S::Error>" "DecodeError"
    //@spec
        ensures
            old(message_digest).is_some() ==> r.is_err() && *final(message_digest) == *old(message_digest),
            old(message_digest).is_none() ==> (r.is_ok() <==> final(message_digest).is_some()),
    //@/spec
    //@end

    //@fn src/repository/sigobj.rs :: impl SignedAttrs :: take_signing_time
    //@sigsub R12 "<S: decode::Source>" ""
    //@sigsub R12 "decode::Constructed<S>" "Constructed"
    //@sigsub R12 "DecodeError<S::Error>" "DecodeError"
    //@sub R12 "cons.take_set(Time::take_from)" "cons.take_set(|c: &mut Constructed| Time::take_from(c))"
    //@spec
        ensures
            old(signing_time).is_some() ==> r.is_err() && *final(signing_time) == *old(signing_time),
            old(signing_time).is_none() ==> (r.is_ok() <==> final(signing_time).is_some()),
    //@/spec
    //@end

    //@fn src/repository/sigobj.rs :: impl SignedAttrs :: take_from_with_mode
    //@lift "cons.take_opt_sequence(|cons|"
    //@sig
    fn take_attr(cons: &mut Constructed, strict: bool, content_type: &mut Option<Oid>, message_digest: &mut Option<OctetString>, signing_time: &mut Option<Time>) -> Result<(), DecodeError>
    //@/sig
    //@sub R13 "&mut content_type" "content_type"
    //@sub R13 "&mut message_digest" "message_digest"
    //@sub R13 "&mut signing_time" "signing_time"
    //@spec
        ensures
            // a successful step is exactly one of: first content-type, first message-digest, first signing-time,
            // or (relaxed mode only) an unknown attribute that changes nothing
            r.is_ok() ==> {
                ||| (filled(*old(content_type), *final(content_type)) && *final(message_digest) == *old(message_digest) && *final(signing_time) == *old(signing_time))
                ||| (filled(*old(message_digest), *final(message_digest)) && *final(content_type) == *old(content_type) && *final(signing_time) == *old(signing_time))
                ||| (filled(*old(signing_time), *final(signing_time)) && *final(content_type) == *old(content_type) && *final(message_digest) == *old(message_digest))
                ||| (!strict && *final(content_type) == *old(content_type) && *final(message_digest) == *old(message_digest) && *final(signing_time) == *old(signing_time))
            },
            // in strict mode a successful step always fills a slot
            r.is_ok() && strict ==> filled(*old(content_type), *final(content_type)) || filled(*old(message_digest), *final(message_digest)) || filled(*old(signing_time), *final(signing_time)),
            // an error never un-fills or replaces a filled slot
            old(content_type).is_some() ==> *final(content_type) == *old(content_type),
            old(message_digest).is_some() ==> *final(message_digest) == *old(message_digest),
            old(signing_time).is_some() ==> *final(signing_time) == *old(signing_time),
    //@/spec
    //@end
}

// ---- history lemma: at most once each ------------------------------------------------------------
/// the state of one slot after each successful step of the capture loop: s[0] is the initial state (empty)
pub open spec fn slot_history_ok<T>(s: Seq<Option<T>>) -> bool {
    &&& s.len() >= 1 && s[0].is_none()
    &&& forall|i: int| 0 <= i < s.len() - 1 ==> (filled(#[trigger] s[i], s[i + 1]) || s[i + 1] == s[i])
}
pub open spec fn fills<T>(s: Seq<Option<T>>) -> int
    decreases s.len()
{
    if s.len() <= 1 { 0 } else { fills(s.drop_last()) + if filled(s[s.len() - 2], s.last()) { 1int } else { 0int } }
}
/// every slot is filled at most once along any history of successful steps, and it is filled at the end
/// exactly when it was filled once: an accepted attribute kind never occurs twice
proof fn lemma_exactly_one<T>(s: Seq<Option<T>>)
    requires slot_history_ok(s)
    ensures fills(s) == (if s.last().is_some() { 1int } else { 0int })
    decreases s.len()
{
    if s.len() > 1 {
        let t = s.drop_last();
        assert(slot_history_ok(t)) by {
            assert forall|i: int| 0 <= i < t.len() - 1 implies (filled(#[trigger] t[i], t[i + 1]) || t[i + 1] == t[i]) by {
                assert(t[i] == s[i] && t[i + 1] == s[i + 1]);
            }
        }
        lemma_exactly_one(t);
        assert(t.last() == s[s.len() - 2]);
    }
}

proof fn reach_take_attr(a: Option<Oid>, o: Oid)
    requires a.is_none()
    ensures filled(a, Some(o))
{}

} // verus!
fn main() {}
