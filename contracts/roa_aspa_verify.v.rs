// Unit roa_aspa_verify (C02): the resource checks of ROAs and ASPAs against the validated EE
// certificate -- RouteOriginAttestation::verify (src/repository/roa.rs), AsProviderAttestation::verify
// (src/repository/aspa.rs) -- and the two `process` functions that compose them with the signed-object
// validation (unit sigobj_compose) and the CRL callback:
//   "every ROA prefix must lie inside the EE certificate's validated IP resources and an ASPA customer
//    AS inside its AS resources (with no IP resources and no inheritance), and the CRL callback's
//    verdict is honoured ... violating any one of them causes rejection."
//
// IpBlocks::{is_empty, contains_roa} / AsBlocks::contains_asn (unit res_sets, C03) and
// SignedObject::validate (unit sigobj_compose) are used through contract links (//@stub): the
// requires/ensures text is taken from the proving unit; the addresses of a ROA are an abstract sequence
// (decoded lazily by bcder).
use vstd::prelude::*;
use vstd::std_specs::cmp::*;
use vstd::std_specs::convert::*;
use vstd::std_specs::iter::*;
use std::sync::Arc;
use core::ops;

verus! {

// ================================================================================================
// environment: external dependencies
// ================================================================================================
/// opaque stand-in for bcder::Captured
#[verifier::external_body]
pub struct Captured { _o: u8 }
pub uninterp spec fn captured_view(c: Captured) -> Seq<u8>;
impl Captured {
    /// bcder: Deref<Target = Bytes>, Bytes::is_empty (assumed)
    #[verifier::external_body]
    pub fn is_empty(&self) -> (r: bool)
        ensures r == (captured_view(*self).len() == 0)
    { unimplemented!() }
}
/// opaque stand-in for bcder::decode::SliceSource
#[verifier::external_body]
pub struct SliceSource<'a> { _o: &'a u8 }
/// opaque stand-in for bcder::decode::ContentError
#[verifier::external_body]
pub struct ContentError { _o: u8 }
impl From<&'static str> for ContentError {
    /// bcder: `impl From<&'static str> for ContentError` (assumed: returns)
    #[verifier::external_body]
    fn from(msg: &'static str) -> Self { unimplemented!() }
}
/// opaque stand-in for bcder::decode::DecodeError<Infallible>
#[verifier::external_body]
pub struct DecodeErrorInfallible { _o: u8 }

// ================================================================================================
// environment: rpki-rs types of other modules
// ================================================================================================
//@item src/resources/asn.rs :: pub struct Asn pubfields keepderive=Clone,Copy
//@item src/crypto/keys.rs :: pub struct KeyIdentifier pubfields keepderive=Clone,Copy

/// opaque stand-in for repository::resources::ipres::Prefix (address + length)
#[verifier::external_body]
#[derive(Clone, Copy)]
pub struct Prefix { _o: u8 }

// ---- repository::resources ---------------------------------------------------------------------
//@item src/repository/resources/choice.rs :: pub enum ResourcesChoice<T>
impl<T> ResourcesChoice<T> {
    //@fn src/repository/resources/choice.rs :: impl<T> ResourcesChoice<T> :: is_inherited
    //@spec
        ensures r == (*self is Inherit),
    //@/spec
    //@end
    //@fn src/repository/resources/choice.rs :: impl<T> ResourcesChoice<T> :: is_present
    //@spec
        ensures r == !(*self is Missing),
    //@/spec
    //@end
}
// opaque IpBlocks / AsBlocks with the abstract views ip_set / as_set (the set denoted), ip_wf / as_wf
// (canonical form), ip_len / as_len: the vocabulary of the contracts linked from unit res_sets
//@include shared/resview_abstract.v.rs
/// one block of the chain covers the closed interval [lo, hi] (abstract; defined in unit res_sets as
/// `exists block. block.min <= lo && hi <= block.max`)
pub uninterp spec fn ip_covers_range(b: IpBlocks, lo: int, hi: int) -> bool;
/// first / last address of the range of a ROA prefix (`addr.prefix.range()`; abstract, as in unit res_sets)
pub uninterp spec fn roa_min(a: RoaIpAddress) -> int;
pub uninterp spec fn roa_max(a: RoaIpAddress) -> int;
/// "some block of `blocks` contains the whole address range of `addr`"
pub open spec fn contains_roa_spec(blocks: IpBlocks, addr: RoaIpAddress) -> bool {
    ip_covers_range(blocks, roa_min(addr), roa_max(addr))
}
/// "`asn` lies in one of the blocks"
pub open spec fn contains_asn_spec(blocks: AsBlocks, asn: Asn) -> bool {
    as_set(blocks).contains(asn.0 as int)
}
impl IpBlocks {
    /// contract link: ipres.rs IpBlocks::is_empty, proved in unit res_sets (an empty chain covers nothing)
    //@stub res_sets :: impl IpBlocks :: is_empty
    pub fn is_empty(&self) -> (r: bool)
    //@end
    /// contract link: ipres.rs:410 IpBlocks::contains_roa, proved in unit res_sets
    //@stub res_sets :: impl IpBlocks :: contains_roa
    pub fn contains_roa(&self, addr: &RoaIpAddress) -> (r: bool)
    //@end
}
impl AsBlocks {
    /// contract link: asres.rs:413 AsBlocks::contains_asn = Chain::contains_item, proved in unit res_sets
    /// (on top of chain_query); requires the chain to be canonical
    //@stub res_sets :: impl AsBlocks :: contains_asn
    pub fn contains_asn(&self, asn: Asn) -> (r: bool)
    //@end
}
//@item src/repository/resources/ipres.rs :: pub struct IpResources pubfields
//@item src/repository/resources/asres.rs :: pub struct AsResources pubfields
impl IpResources {
    //@fn src/repository/resources/ipres.rs :: impl IpResources :: is_present
    //@spec
        ensures r == !(self.0 is Missing),
    //@/spec
    //@end
}
impl AsResources {
    //@fn src/repository/resources/asres.rs :: impl AsResources :: is_inherited
    //@spec
        ensures r == (self.0 is Inherit),
    //@/spec
    //@end
}

// ---- field types of TbsCert that play no role here ---------------------------------------------
#[verifier::external_body]
pub struct PublicKey { _o: u8 }
#[verifier::external_body]
pub struct RpkiSignatureAlgorithm { _o: u8 }
#[verifier::external_body]
#[derive(Clone, Copy)]
pub struct Time { _o: u8 }
#[verifier::external_body]
pub struct Serial { _o: u8 }
#[verifier::external_body]
pub struct Name { _o: u8 }
#[verifier::external_body]
pub struct Validity { _o: u8 }
#[verifier::external_body]
pub struct ExtendedKeyUsage { _o: u8 }
#[verifier::external_body]
pub struct SignedData { _o: u8 }
#[verifier::external_body]
pub struct TalInfo { _o: u8 }
pub mod uri {
    #[allow(unused_imports)] use super::*;
    #[verifier::external_body]
    pub struct Rsync { _o: u8 }
    #[verifier::external_body]
    pub struct Https { _o: u8 }
}

// ---- repository::error ---------------------------------------------------------------------------
//@item src/repository/error.rs :: pub struct InspectionError pubfields
//@item src/repository/error.rs :: pub struct VerificationError pubfields
//@item src/repository/error.rs :: pub struct ValidationError pubfields
//@item src/repository/error.rs :: enum ValidationErrorKind pubfields sub "DecodeError<Infallible>" "DecodeErrorInfallible"
impl VerificationError {
    //@fn src/repository/error.rs :: impl VerificationError :: new
    //@sigsub R12 "err: impl Into<ContentError>" "err: &'static str"
    //@end
}
impl FromSpecImpl<VerificationError> for ValidationError {
    open spec fn obeys_from_spec() -> bool { true }
    open spec fn from_spec(err: VerificationError) -> Self { ValidationError { inner: ValidationErrorKind::Verification(err) } }
}
impl From<VerificationError> for ValidationError {
    //@fn src/repository/error.rs :: impl From<VerificationError> for ValidationError :: from
    //@end
}

// ---- repository::cert ------------------------------------------------------------------------------
//@item src/repository/cert.rs :: pub enum KeyUsage keepderive=Clone,Copy
//@item src/repository/cert.rs :: pub enum Overclaim keepderive=Clone,Copy
//@item src/repository/cert.rs :: pub struct TbsCert pubfields
//@item src/repository/cert.rs :: pub struct Cert pubfields
//@item src/repository/cert.rs :: pub struct ResourceCert pubfields

impl TbsCert {
    //@fn src/repository/cert.rs :: impl TbsCert :: v6_resources
    //@spec
        ensures *r == self.v6_resources,
    //@/spec
    //@end
    //@fn src/repository/cert.rs :: impl TbsCert :: has_ip_resources
    //@spec
        ensures r == (!(self.v4_resources.0 is Missing) || !(self.v6_resources.0 is Missing)),
    //@/spec
    //@end
    //@fn src/repository/cert.rs :: impl TbsCert :: as_resources
    //@spec
        ensures *r == self.as_resources,
    //@/spec
    //@end
}
impl ops::Deref for Cert {
    type Target = TbsCert;
    //@fn src/repository/cert.rs :: impl ops::Deref for Cert :: deref
    //@spec
        ensures *r == self.tbs,
    //@/spec
    //@end
}
impl ResourceCert {
    //@fn src/repository/cert.rs :: impl ResourceCert :: as_cert
    //@spec
        ensures *r == self.cert,
    //@/spec
    //@end
    //@fn src/repository/cert.rs :: impl ResourceCert :: v4_resources
    //@spec
        ensures *r == self.v4_resources,
    //@/spec
    //@end
    //@fn src/repository/cert.rs :: impl ResourceCert :: v6_resources
    //@spec
        ensures *r == self.v6_resources,
    //@/spec
    //@end
    //@fn src/repository/cert.rs :: impl ResourceCert :: as_resources
    //@spec
        ensures *r == self.as_resources,
    //@/spec
    //@end
    //@fn src/repository/cert.rs :: impl AsRef<Cert> for ResourceCert :: as_ref as=as_ref
    //@spec
        ensures *r == self.cert,
    //@/spec
    //@end
}

// ---- repository::sigobj (unit sigobj_compose) ------------------------------------------------------
/// opaque stand-in for sigobj::SignedObject
#[verifier::external_body]
pub struct SignedObject { _o: u8 }
/// the acceptance predicate of unit sigobj_compose (`accepted`): sid == SKI, digest == SHA-256(content),
/// signature over the SET OF encoding verifies, EE certificate valid under the issuer (abstract here)
pub uninterp spec fn accepted(o: SignedObject, issuer: ResourceCert, strict: bool, now: Time) -> bool;
/// what decoding establishes about a signed object (abstract here; defined in unit sigobj_compose)
pub uninterp spec fn wf(o: SignedObject) -> bool;
/// the EE certificate carried by the object (`o.cert`; SignedObject is opaque here)
pub uninterp spec fn ee_cert_of(o: SignedObject) -> Cert;
/// C01 vocabulary, abstract here (defined in unit cert_compose): the three resource sets attached to rc
/// are the ones c validly receives from issuer
pub uninterp spec fn issued_resources(rc: ResourceCert, c: Cert, issuer: ResourceCert) -> bool;
// `issued_result`, `rc_wf` (shared with unit cert_compose) and `outcome_is` (shared with unit sigobj_compose)
//@include shared/cert_vocab.v.rs
//@include shared/sigobj_vocab.v.rs
impl SignedObject {
    /// contract link: sigobj.rs SignedObject::validate, proved in unit sigobj_compose
    //@stub sigobj_compose :: impl SignedObject :: validate
    pub fn validate(self, issuer: &ResourceCert, strict: bool) -> (r: Result<ResourceCert, ValidationError>)
    //@end
}

// ================================================================================================
// the unit: src/repository/roa.rs
// ================================================================================================
//@item src/repository/roa.rs :: pub struct RoaIpAddress pubfields keepderive=Clone,Copy
//@item src/repository/roa.rs :: pub struct FriendlyRoaIpAddress pubfields keepderive=Clone,Copy
//@item src/repository/roa.rs :: struct UncoveredPrefix pubfields
//@item src/repository/roa.rs :: pub struct RoaIpAddresses pubfields
//@item src/repository/roa.rs :: pub struct RoaIpAddressIter<'a> pubfields
//@item src/repository/roa.rs :: pub struct RouteOriginAttestation pubfields
//@item src/repository/roa.rs :: pub struct Roa pubfields

/// the ROAIPAddress entries encoded in the captured content of one address family (bcder decodes
/// them lazily, one `take_opt_sequence` per `next()`); abstract
pub uninterp spec fn roa_decode(content: Seq<u8>) -> Seq<RoaIpAddress>;
/// the entries the iterator will still yield
pub uninterp spec fn roa_iter_remaining(it: RoaIpAddressIter) -> Seq<RoaIpAddress>;
pub mod ax {
    use super::*;
    /// bcder / DER: the content octets of a SEQUENCE OF are empty exactly when it has no element
    /// (assumed; the content was checked element by element by RoaIpAddresses::take_from)
    #[verifier::external_body]
    pub broadcast proof fn axiom_roa_decode_empty(content: Seq<u8>)
        ensures (#[trigger] roa_decode(content)).len() == 0 <==> content.len() == 0 {}
}

impl Iterator for RoaIpAddressIter<'_> {
    type Item = RoaIpAddress;
    /// roa.rs: `Mode::Der.decode(&mut self.0, |cons| RoaIpAddress::take_opt_from_unchecked(cons)).unwrap()`
    /// -- bcder closure code; assumed to obey vstd's iterator protocol over `roa_iter_remaining`
    #[verifier::external_body]
    fn next(&mut self) -> Option<RoaIpAddress> { unimplemented!() }
}
/// vstd's (prophetic) iterator model instantiated for RoaIpAddressIter: a finite iterator that
/// yields `roa_iter_remaining` in order and then None
impl IteratorSpecImpl for RoaIpAddressIter<'_> {
    open spec fn obeys_prophetic_iter_laws(&self) -> bool { true }
    open spec fn remaining(&self) -> Seq<RoaIpAddress> { roa_iter_remaining(*self) }
    open spec fn will_return_none(&self) -> bool { true }
    open spec fn decrease(&self) -> Option<nat> { Some(roa_iter_remaining(*self).len()) }
    open spec fn peek(&self, i: int) -> Option<RoaIpAddress> {
        if 0 <= i < roa_iter_remaining(*self).len() { Some(roa_iter_remaining(*self)[i]) } else { None }
    }
}

impl RoaIpAddresses {
    pub open spec fn view(&self) -> Seq<RoaIpAddress> { roa_decode(captured_view(self.0)) }

    //@fn src/repository/roa.rs :: impl RoaIpAddresses :: is_empty
    //@spec
        ensures
            r == (self@.len() == 0),
            // (names the first entry, so that callers have a witness for "some entry is not covered")
            !r ==> self@.first() == self@[0],
    //@/spec
    //@ghost begin
        broadcast use ax::axiom_roa_decode_empty;
    //@/ghost
    //@end

    /// roa.rs: `RoaIpAddressIter(self.0.as_slice().into_source())` (bcder IntoSource); assumed: the
    /// iterator yields the entries encoded in the captured content
    #[verifier::external_body]
    pub fn iter(&self) -> (r: RoaIpAddressIter<'_>)
        ensures roa_iter_remaining(r) == self@
    { unimplemented!() }
}
impl FriendlyRoaIpAddress {
    //@fn src/repository/roa.rs :: impl FriendlyRoaIpAddress :: new
    //@end
}
impl UncoveredPrefix {
    //@fn src/repository/roa.rs :: impl UncoveredPrefix :: new
    //@end
}
impl From<UncoveredPrefix> for VerificationError {
    /// roa.rs: `ContentError::from_boxed(Box::new(err)).into()` (bcder boxed Display error; assumed: returns)
    #[verifier::external_body]
    fn from(err: UncoveredPrefix) -> Self { unimplemented!() }
}

// ---- specification -----------------------------------------------------------------------------
/// every address of the list lies inside the blocks
pub open spec fn all_covered(blocks: IpBlocks, addrs: Seq<RoaIpAddress>) -> bool {
    forall|i: int| 0 <= i < addrs.len() ==> contains_roa_spec(blocks, #[trigger] addrs[i])
}
/// the statement: every v4 and every v6 ROA prefix lies inside the EE certificate's validated
/// IPv4 / IPv6 resources
pub open spec fn roa_covered(roa: RouteOriginAttestation, cert: ResourceCert) -> bool {
    all_covered(cert.v4_resources, roa.v4_addrs@) && all_covered(cert.v6_resources, roa.v6_addrs@)
}

impl RouteOriginAttestation {
    //@fn src/repository/roa.rs :: impl RouteOriginAttestation :: verify loopiso
    //@sigsub R12 "&mut self" "&self"
    //@spec
        ensures
            r is Ok <==> roa_covered(*self, *cert),
    //@/spec
    //@loop "for addr in self.v4_addrs.iter()" iter=it4
            invariant
                it4.seq() == self.v4_addrs@,
                forall|i: int| 0 <= i < it4.index@ ==> contains_roa_spec(*blocks, #[trigger] self.v4_addrs@[i]),
    //@/loop
    //@loop "for addr in self.v6_addrs.iter()" iter=it6
            invariant
                all_covered(cert.v4_resources, self.v4_addrs@),
                it6.seq() == self.v6_addrs@,
                forall|i: int| 0 <= i < it6.index@ ==> contains_roa_spec(*blocks, #[trigger] self.v6_addrs@[i]),
    //@/loop
    //@end
}

/// outcome of Roa::process / Aspa::process given the verdict `acc` of the signed-object acceptance
/// predicate, the callback and the resource check `covered` on the validated EE certificate
pub open spec fn process_outcome<F: FnOnce(&Cert) -> Result<(), ValidationError>, C>(
    r: Result<(ResourceCert, C), ValidationError>, content: C, o: SignedObject, issuer: ResourceCert, check_crl: F,
    acc: bool, covered: spec_fn(ResourceCert) -> bool,
) -> bool {
    if !acc {
        // signed object not accepted: rejected
        r is Err
    } else {
        match r {
            // accepted: the result is the EE certificate validated under the issuer, the callback said Ok
            // on the EE certificate and the resources are covered
            Ok((cert, c)) => issued_result(cert, ee_cert_of(o), issuer) && rc_wf(cert) && c == content
                && check_crl.ensures((&ee_cert_of(o),), Ok(())) && covered(cert),
            // rejected: the callback's error is returned, or the callback said Ok and the resources of the
            // validated EE certificate are not covered
            Err(e) => check_crl.ensures((&ee_cert_of(o),), Err(e))
                || (check_crl.ensures((&ee_cert_of(o),), Ok(()))
                    && exists|rc: ResourceCert| #[trigger] issued_result(rc, ee_cert_of(o), issuer) && rc_wf(rc) && !covered(rc)),
        }
    }
}

impl Roa {
    //@fn src/repository/roa.rs :: impl Roa :: process
    //@sigsub R12 "mut self" "self"
    //@spec
        requires
            wf(self.signed), rc_wf(*issuer),
            forall|c: &Cert| #[trigger] check_crl.requires((c,)),
        ensures
            exists|now: Time| process_outcome(r, self.content, self.signed, *issuer, check_crl,
                #[trigger] accepted(self.signed, *issuer, strict, now),
                |rc: ResourceCert| roa_covered(self.content, rc)),
    //@/spec
    //@end
}

// ================================================================================================
// the unit: src/repository/aspa.rs
// ================================================================================================
/// opaque stand-in for aspa::ProviderAsSet (captured provider list)
#[verifier::external_body]
pub struct ProviderAsSet { _o: u8 }
//@item src/repository/aspa.rs :: pub struct AsProviderAttestation pubfields
//@item src/repository/aspa.rs :: pub struct Aspa pubfields

/// the statement: the customer AS lies inside the EE certificate's validated AS resources, the
/// certificate's AS resources are not inherited, and it has no IP resources (neither listed nor inherited)
pub open spec fn aspa_covered(aspa: AsProviderAttestation, cert: ResourceCert) -> bool {
    contains_asn_spec(cert.as_resources, aspa.customer_as)
    && !(cert.cert.tbs.as_resources.0 is Inherit)
    && cert.cert.tbs.v4_resources.0 is Missing
    && cert.cert.tbs.v6_resources.0 is Missing
}

impl AsProviderAttestation {
    //@fn src/repository/aspa.rs :: impl AsProviderAttestation :: verify
    //@sigsub R12 "&mut self" "&self"
    //@spec
        requires
            // the validated AS resources are a canonical chain (postcondition of the validation that produced
            // `cert`; precondition of the linked AsBlocks::contains_asn contract)
            rc_wf(*cert),
        ensures
            r is Ok <==> aspa_covered(*self, *cert),
    //@/spec
    //@end
}
impl Aspa {
    //@fn src/repository/aspa.rs :: impl Aspa :: process
    //@sigsub R12 "mut self" "self"
    //@spec
        requires
            wf(self.signed), rc_wf(*issuer),
            forall|c: &Cert| #[trigger] check_crl.requires((c,)),
        ensures
            exists|now: Time| process_outcome(r, self.content, self.signed, *issuer, check_crl,
                #[trigger] accepted(self.signed, *issuer, strict, now),
                |rc: ResourceCert| aspa_covered(self.content, rc)),
    //@/spec
    //@end
}

// ---- consequences, in the words of the statement ---------------------------------------------
/// one uncovered prefix (of either family) causes rejection
proof fn lemma_uncovered_prefix_rejects(roa: RouteOriginAttestation, cert: ResourceCert, i: int)
    requires
        (0 <= i < roa.v4_addrs@.len() && !contains_roa_spec(cert.v4_resources, roa.v4_addrs@[i]))
        || (0 <= i < roa.v6_addrs@.len() && !contains_roa_spec(cert.v6_resources, roa.v6_addrs@[i])),
    ensures !roa_covered(roa, cert),
{}

/// acceptance by `process` implies every condition; a rejecting callback or a failed resource check
/// causes rejection
proof fn lemma_process_exact<F: FnOnce(&Cert) -> Result<(), ValidationError>, C>(
    r: Result<(ResourceCert, C), ValidationError>, content: C, o: SignedObject, issuer: ResourceCert, check_crl: F,
    covered: spec_fn(ResourceCert) -> bool)
    requires process_outcome(r, content, o, issuer, check_crl, true, covered),
    ensures
        r matches Ok((cert, c)) ==> covered(cert) && check_crl.ensures((&ee_cert_of(o),), Ok(()))
            && issued_result(cert, ee_cert_of(o), issuer) && cert.cert == ee_cert_of(o),
        // no validated EE certificate of this object under this issuer is covered: rejected
        (forall|rc: ResourceCert| #[trigger] issued_result(rc, ee_cert_of(o), issuer) ==> !covered(rc)) ==> r is Err,
        !check_crl.ensures((&ee_cert_of(o),), Ok(())) ==> r is Err,
        // every one is covered and the callback cannot fail: accepted
        (forall|rc: ResourceCert| #[trigger] issued_result(rc, ee_cert_of(o), issuer) ==> covered(rc))
            && (forall|e: ValidationError| !#[trigger] check_crl.ensures((&ee_cert_of(o),), Err(e))) ==> r is Ok,
{}
/// a signed object that is not accepted is rejected whatever the callback and the resources say
proof fn lemma_not_accepted_rejects<F: FnOnce(&Cert) -> Result<(), ValidationError>, C>(
    r: Result<(ResourceCert, C), ValidationError>, content: C, o: SignedObject, issuer: ResourceCert, check_crl: F,
    covered: spec_fn(ResourceCert) -> bool)
    requires process_outcome(r, content, o, issuer, check_crl, false, covered),
    ensures r is Err,
{}

/// vacuity guard: both sides of the ROA/ASPA predicates are inhabited
proof fn reach_roa_aspa(roa: RouteOriginAttestation, aspa: AsProviderAttestation, cert: ResourceCert)
    requires
        roa.v4_addrs@.len() == 2, roa.v6_addrs@.len() == 0,
        contains_roa_spec(cert.v4_resources, roa.v4_addrs@[0]),
        contains_roa_spec(cert.v4_resources, roa.v4_addrs@[1]),
        contains_asn_spec(cert.as_resources, aspa.customer_as),
        cert.cert.tbs.as_resources.0 is Blocks,
        cert.cert.tbs.v4_resources.0 is Missing,
        cert.cert.tbs.v6_resources.0 is Missing,
    ensures
        roa_covered(roa, cert),
        aspa_covered(aspa, cert),
{}

} // verus!
fn main() {}
