#!/bin/sh
# Offline setup: warm the Kani dependency cache (optional; checks build what they need).
set -e
cd "$(dirname "$0")"
mkdir -p .cache evidence replays
python3 -c "import sys; sys.path.insert(0,'lib'); import run_verus, run_kani, assemble" 
command -v verus >/dev/null
command -v cargo-kani >/dev/null || cargo kani --version >/dev/null
# warm caches by running the cheapest property once (ignore result)
./check C16 --tier quick >/dev/null 2>&1 || true
exit 0
