#!/bin/sh
# Offline setup: sanity checks and cache warm-up (checks rebuild whatever they need themselves).
set -e
cd "$(dirname "$0")"
mkdir -p .cache evidence replays
python3 -c "import sys; sys.path.insert(0,'lib'); import run_verus, run_kani, assemble" 
command -v verus >/dev/null
command -v cargo-kani >/dev/null || cargo kani --version >/dev/null
# warm the Kani dependency cache (.cache/kani-target) with the cheapest property (result ignored)
./check C16 --tier quick >/dev/null 2>&1 || true
# warm the native dependency cache (.cache/replay-target; aws-lc-sys etc.) used by counterexample replay and
# by the witness-search harnesses (result ignored)
python3 lib/runk.py chain_w quick >/dev/null 2>&1 || true
exit 0
